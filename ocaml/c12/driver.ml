(* C12: replay the harness trace through the extracted Gallina model of line_stats.go, the one-shot merge
   filter of forks.go, devs.go and commits.go, and judge the implementation's outputs with the property
   oracles (PROPFAIL) - conservation of lines, every commit counted at most / exactly once, listing =
   single-branch commits, language sums.  MISMATCH = the model and the implementation disagree. *)
open C12_model
open Conv

let n = n_of_int
let ni = int_of_n
let nth = List.nth
let iarg s i = int_of_sx (nth (args s) i)

let edit_of_sx s =
  let c = n (iarg s 0) in
  match tag s with
  | "e" -> (OEq, c) | "i" -> (OIns, c) | "d" -> (ODel, c)
  | t -> failwith ("unknown edit " ^ t)

let opt_lines i = if i = -1 then None else if i >= 0 then Some (n i) else failwith "blob missing in the cache"

(* (side, file, lang, added, removed, changed) rows, sorted *)
type row = int * int * int * int * int * int
let rows_of_model (l : ((bool * n) * (n * stats)) list) : row list =
  List.sort compare (List.map (fun ((side, f), (lang, st)) ->
    (ni f, (if side then 1 else 0), ni lang, ni st.added, ni st.removed, ni st.changed)) l)
let rows_of_obs (st : sx) : row list =
  List.sort compare (List.map (fun k -> (iarg k 1, iarg k 0, iarg k 2, iarg k 3, iarg k 4, iarg k 5)) (args st))
let show_rows (l : row list) =
  String.concat " " (List.map (fun (f, s, l, a, r, c) -> Printf.sprintf "(f%d side%d lang%d +%d -%d ~%d)" f s l a r c) l)
let mk_stats a r c = { added = n a; removed = n r; changed = n c }

(* ------------------------------------------------------------------------------------------ *)
(* direct cases: LinesStatsCalculator.Consume on fabricated dependencies *)
let direct id c =
  let merge = bool_of_sx (nth (args (field "merge" c)) 0) in
  let items = args (field "items" c) in
  let changes = List.map (fun s ->
    let f = n (iarg s 0) in
    match tag s with
    | "ins" -> ChInsert (f, N0, opt_lines (iarg s 1))
    | "del" -> ChDelete (f, N0, opt_lines (iarg s 1))
    | "mod" -> ChModify (f, N0, List.map edit_of_sx (List.tl (args s)))
    | t -> failwith ("unknown change " ^ t)) items in
  let obs = args (field "obs" c) in
  match obs with
  | [o] when tag o = "st" ->
      count "direct_cases";
      if field_opt "enc" c <> None then count "direct_cases_with_special_byte_content";
      if field_opt "hp" c <> None then count "direct_cases_with_blob_hashes_sharing_a_prefix";
      let real = rows_of_obs o in
      let model = rows_of_model (lsc_consume merge changes) in
      if real <> model then
        mismatch id (Printf.sprintf "LinesStatsCalculator.Consume: impl=%s model=%s" (show_rows real) (show_rows model));
      (* property oracle, independent of the model's answer: conservation per file whose entry is not
         overwritten by another change of the same list *)
      if not merge then begin
        let keyc = Hashtbl.create 16 in
        List.iter (fun ch ->
          let k = (match ch with ChInsert (f, _, Some _) | ChModify (f, _, _) -> Some (1, ni f) | ChDelete (f, _, Some _) -> Some (0, ni f) | _ -> None) in
          match k with Some k -> Hashtbl.replace keyc k (1 + try Hashtbl.find keyc k with Not_found -> 0) | None -> ()) changes;
        let uniq k = (try Hashtbl.find keyc k with Not_found -> 0) = 1 in
        let find side f = List.filter (fun (f', s', _, _, _, _) -> f' = f && s' = side) real in
        let judge what side f ins del =
          match find side f with
          | [(_, _, _, a, r, ch)] ->
              if not (conserve_ok (mk_stats a r ch) ins del) then
                propfail id (Printf.sprintf "%s f%d: added=%d removed=%d changed=%d but the diff inserts %d and deletes %d lines"
                               what f a r ch (ni ins) (ni del))
          | [] -> propfail id (Printf.sprintf "%s f%d: no line statistics for a text file" what f)
          | _ -> mismatch id "duplicate rows" in
        List.iter (fun ch ->
          match ch with
          | ChModify (f, _, ds) when uniq (1, ni f) ->
              if no_del_del ds then begin
                count (if canonical ds then "scripts_canonical" else "scripts_no_del_del");
                judge "modified" 1 (ni f) (inserted ds) (deleted ds)
              end else count "scripts_outside_domain"
          | ChInsert (f, _, Some l) when uniq (1, ni f) -> count "inserted_files"; judge "inserted" 1 (ni f) l N0
          | ChDelete (f, _, Some l) when uniq (0, ni f) -> count "deleted_files"; judge "deleted" 0 (ni f) N0 l
          | ChInsert (f, _, None) when not (Hashtbl.mem keyc (1, ni f)) ->
              count "binary_files"; if find 1 (ni f) <> [] then propfail id (Printf.sprintf "binary file f%d has line statistics" (ni f))
          | ChDelete (f, _, None) when not (Hashtbl.mem keyc (0, ni f)) ->
              count "binary_files"; if find 0 (ni f) <> [] then propfail id (Printf.sprintf "binary file f%d has line statistics" (ni f))
          | _ -> count "overwritten_entries") changes
      end else begin
        (* the property says nothing about merge steps; the model (no statistics) is compared above *)
        count "direct_merge"
      end
  | _ -> mismatch id ("direct: the implementation failed: " ^ String.concat " " (List.map string_of_sx obs))

(* ------------------------------------------------------------------------------------------ *)
(* pipeline cases *)
type tfile = { tf : int; told : int; tob : bool; tnew : int; tnb : bool; tins : int; tdel : int }
type rstep = { rc : int; rnp : int; rm : bool; rauthor : int; rtick : int; rindex : int; rinst : int;
               rchanges : change list; renames : bool; rrows : row list; badfd : bool }

(* Everything below is linear (or n log n) in the number of replay steps: the long histories of the scale
   family have 10^4 .. 10^5 steps.  The judgements are the extracted fast functions of LineStats/Fast.v, each
   proved equal to the specification-level function (C12_fast_replay_ok, C12_fast_once_oracle, C12_fast_listing,
   C12_fast_runs); on short sequences the slow functions are evaluated as well and must agree. *)
let small_limit = 40
(* round 4: FileDiff.WhitespaceIgnore of the case being judged (lines that differ in U+0020 only are then the same line) *)
let ws_case = ref false
type cinfo = { mutable allne : bool; mutable somene : bool; mutable ckeys : (int * int) list; mutable nrep : int }

let rec is_prefix p l = match p, l with
  | [], _ -> true
  | x :: p', y :: l' -> x = y && is_prefix p' l'
  | _ :: _, [] -> false
let rec drop k l = if k <= 0 then l else match l with [] -> [] | _ :: r -> drop (k - 1) r
let rec but_last = function [] | [_] -> [] | x :: r -> x :: but_last r

(* One analysis (Initialize + Run of one pipeline).  pfx: prefix of every message (which analysis of a re-use case);
   prev_lh: the listing the CommitsAnalysis instance held when this analysis began (hashes; [] for a new instance).
   Returns the listing the instance holds afterwards. *)
let pipe_obs id pfx cec is_scale hib (prev_lh : string list) obs : string list =
  let mismatch id m = mismatch id (pfx ^ m) and propfail id m = propfail id (pfx ^ m) in
  match args obs with
  | [o] when tag o = "empty" -> count "pipe_empty"; prev_lh
  | [o] when tag o = "panic" || tag o = "error" ->
      (* no result to judge; the model never fails *)
      mismatch id ("the pipeline run failed: " ^ tag o); prev_lh
  | _ ->
  let failed = field_opt "failed" obs <> None in
  count "pipe_cases";
  if field_opt "same-pipeline" obs <> None then count "reuse_analyses_with_the_same_pipeline_object";
  if hib > 0 then count "pipe_cases_with_hibernation";
  (match field_opt "mergeprefix" obs with
   | Some f -> let k = int_of_sx (nth (args f) 0) in
       if k >= 8 then count "pipe_cases_two_merge_hashes_share_8_or_more_hex_digits"
       else if k >= 4 then count "pipe_cases_two_merge_hashes_share_4_to_7_hex_digits"
       else if k >= 1 then count "pipe_cases_two_merge_hashes_share_1_to_3_hex_digits"
   | None -> ());
  let lh = List.map atom (args (field "lhashes" obs)) in
  (* --- the steps the items saw *)
  let steps = List.map (fun s ->
    let a = args s in
    let ren = ref false and badfd = ref false in
    let changes = List.map (fun ch ->
      let f = n (iarg ch 0) and lang = n (iarg ch 1) in
      match tag ch with
      | "ins" -> ChInsert (f, lang, opt_lines (iarg ch 2))
      | "del" -> ChDelete (f, lang, opt_lines (iarg ch 2))
      | "mod" ->
          if iarg ch 2 <> iarg ch 0 then ren := true;
          if iarg ch 3 = 0 then badfd := true;
          ChModify (f, lang, List.map edit_of_sx (args (nth (args ch) 6)))
      | t -> failwith ("unknown change " ^ t)) (args (field "ch" s)) in
    { rc = int_of_sx (nth a 0); rnp = int_of_sx (nth a 1); rm = bool_of_sx (nth a 2); rauthor = int_of_sx (nth a 3);
      rtick = int_of_sx (nth a 4); rindex = int_of_sx (nth a 5); rinst = int_of_sx (nth a 8); rchanges = changes; renames = !ren;
      rrows = rows_of_obs (field "st" s); badfd = !badfd }) (args (field "steps" obs)) in
  let nsteps = List.length steps in
  let small = nsteps <= small_limit in
  if is_scale then count "scale_cases";
  if nsteps >= 1000 then count "pipe_cases_1000_steps_or_more";
  if nsteps >= 10000 then count "pipe_cases_10000_steps_or_more";
  if nsteps >= 100000 then count "pipe_cases_100000_steps_or_more";
  let msteps = List.map (fun r ->
    { s_commit = n r.rc; s_nparents = n r.rnp; s_ismerge = r.rm; s_author = n r.rauthor; s_tick = n r.rtick; s_changes = r.rchanges }) steps in
  (* the executed replay sequence, observed from inside the run *)
  let replays = Hashtbl.create 64 in
  List.iter (fun r -> Hashtbl.replace replays r.rc (1 + try Hashtbl.find replays r.rc with Not_found -> 0)) steps;
  let k_of ci = try Hashtbl.find replays ci with Not_found -> 0 in
  let exec_commits = List.map (fun r -> (r.rc, r.rinst)) steps in
  (* --- the plan of a separate planner call: informational, the planner is not deterministic across calls *)
  (match args (field "plan" obs) with
   | [A "skipped"] -> ()
   | plan ->
     let plan_commits = List.filter_map (fun a -> if tag a = "c" then Some (iarg a 0, iarg a 1) else None) plan in
     if List.map fst exec_commits <> List.map fst plan_commits then count "second_planner_call_orders_commits_differently";
     (* e.g. two root components of equal size: which one is analysed depends on Go map iteration order *)
     if List.sort compare (List.map fst exec_commits) <> List.sort compare (List.map fst plan_commits) then
       count "second_planner_call_replays_other_commits");
  (* --- the assumption about the replay sequence (C02 / C14) *)
  let rok = replay_ok_fast msteps in
  if small && rok <> replay_ok msteps then mismatch id "driver-failure: replay_ok_fast and replay_ok disagree";
  (* a run that was made to fail may stop between the replays of one merge *)
  if not rok && not failed then mismatch id "replay_ok fails: merge flag <-> replayed more than once, at most one replay per parent";
  (* replays of one commit are adjacent, on different branches, consecutively numbered *)
  (let seenc = Hashtbl.create 64 and seenb = Hashtbl.create 64 and prev = ref (-1) in
   List.iter (fun (ci, b) ->
     if ci <> !prev && Hashtbl.mem seenc ci then mismatch id (Printf.sprintf "replays of commit %d are not adjacent in the run" ci);
     if Hashtbl.mem seenb (ci, b) then mismatch id (Printf.sprintf "commit %d replayed twice on branch %d" ci b);
     Hashtbl.replace seenc ci true; Hashtbl.replace seenb (ci, b) true; prev := ci) exec_commits);
  (let bad = ref false in List.iteri (fun i r -> if r.rindex <> i then bad := true) steps;
   if !bad then mismatch id "DependencyIndex is not the position in the replay sequence");
  if List.exists (fun r -> r.badfd) steps then mismatch id "a modified file without FileDiff data";
  if List.exists (fun r -> r.rm) steps then count "pipe_cases_with_merge_replays";
  if List.exists (fun r -> k_of r.rc >= 3) steps then count "pipe_cases_with_octopus";
  if List.exists (fun r -> r.rnp >= 2 && not r.rm) steps then count "pipe_cases_with_multi_parent_single_replay";
  (* --- fine correspondence 1: LinesStatsCalculator on every step *)
  (let reported = ref 0 in
   List.iteri (fun i (r, m) ->
    let model = rows_of_model (step_stats m) in
    if !reported < 5 then begin
      if List.exists (fun (_, s, _, _, _, _) -> s < 0) r.rrows then
        (incr reported; mismatch id (Printf.sprintf "step %d: statistics for an entry that is not in the tree changes" i))
      else if model <> r.rrows then
        (incr reported; mismatch id (Printf.sprintf "step %d (commit %d): line stats impl=%s model=%s" i r.rc (show_rows r.rrows) (show_rows model)))
    end)
    (List.combine steps msteps));
  (* --- an analysis that was made to fail (the recording item returned an error at its last recorded step): there is no
     result; what the leaf items hold (read with Finalize) must be what the model holds after all the recorded steps or
     after all but the last one (the item may come before or after the recording item in the pipeline) *)
  if failed then begin
    count "failed_analyses";
    let real_devs = List.sort compare (List.map (fun t ->
      let langs = List.sort compare (List.map (fun l -> (iarg l 0, iarg l 1, iarg l 2, iarg l 3)) (args (nth (args t) 6))) in
      ((iarg t 0, iarg t 1), (iarg t 2, (iarg t 3, iarg t 4, iarg t 5), langs))) (args (field "devs" obs))) in
    let conv_devs l = List.sort compare (List.map (fun ((t, a), dd) ->
      ((ni t, ni a), (ni dd.dt_commits, (ni dd.dt_stats.added, ni dd.dt_stats.removed, ni dd.dt_stats.changed),
         List.sort compare (List.map (fun (l, st) -> (ni l, ni st.added, ni st.removed, ni st.changed)) dd.dt_langs)))) l) in
    if real_devs <> conv_devs (devs_result_fast cec msteps) && real_devs <> conv_devs (devs_result_fast cec (but_last msteps)) then
      mismatch id "after a failed analysis DevsAnalysis holds neither the model's state after all recorded steps nor after all but the last";
    let listed = List.map (fun cm -> iarg cm 0) (args (field "commits" obs)) in
    let ids l = List.map (fun cs -> ni cs.cs_commit) l in
    let fits l = l = ids (commits_run_fast msteps) || l = ids (commits_run_fast (but_last msteps)) in
    if not (fits listed) then begin
      if prev_lh <> [] && is_prefix prev_lh lh && fits (drop (List.length prev_lh) listed) then begin
        count "analyses_with_stale_listing";
        propfail id (Printf.sprintf "[reuse:commits-listing-not-reset] after a failed analysis the re-used CommitsAnalysis instance holds %d commit(s), the first %d are the entries it held from its earlier analyses (Initialize does not reset the listing)"
                       (List.length listed) (List.length prev_lh))
      end else
        mismatch id "after a failed analysis CommitsAnalysis holds neither the model's listing after all recorded steps nor after all but the last"
    end;
    lh
  end else begin
  (* --- fine correspondence 2: DevsResult *)
  let real_devs = List.map (fun t ->
    let langs = List.sort compare (List.map (fun l -> (iarg l 0, iarg l 1, iarg l 2, iarg l 3)) (args (nth (args t) 6))) in
    ((iarg t 0, iarg t 1), (iarg t 2, (iarg t 3, iarg t 4, iarg t 5), langs))) (args (field "devs" obs)) in
  let real_devs = List.sort compare real_devs in
  let devs_tbl = Hashtbl.create 64 in
  List.iter (fun (k, v) -> if Hashtbl.mem devs_tbl k then mismatch id "driver-failure: a (tick, developer) key twice in DevsResult" else Hashtbl.replace devs_tbl k v) real_devs;
  let conv_devs l = List.sort compare (List.map (fun ((t, a), dd) ->
    ((ni t, ni a), (ni dd.dt_commits, (ni dd.dt_stats.added, ni dd.dt_stats.removed, ni dd.dt_stats.changed),
       List.sort compare (List.map (fun (l, st) -> (ni l, ni st.added, ni st.removed, ni st.changed)) dd.dt_langs)))) l) in
  let model_devs = conv_devs (devs_result_fast cec msteps) in
  if small && model_devs <> conv_devs (devs_result cec msteps) then mismatch id "driver-failure: devs_result_fast and devs_result disagree";
  let show_devs l = String.concat " " (List.map (fun ((t, a), (cm, (x, y, z), langs)) ->
    Printf.sprintf "(tick%d dev%d commits=%d +%d -%d ~%d langs[%s])" t a cm x y z
      (String.concat ";" (List.map (fun (l, x, y, z) -> Printf.sprintf "%d:+%d-%d~%d" l x y z) langs))) l) in
  if real_devs <> model_devs then begin
    if small then mismatch id ("DevsResult impl=" ^ show_devs real_devs ^ " model=" ^ show_devs model_devs)
    else begin
      (* long case: show only the entries that differ *)
      let mt = Hashtbl.create 64 in List.iter (fun (k, v) -> Hashtbl.replace mt k v) model_devs;
      let d1 = List.filter (fun (k, v) -> (try Hashtbl.find mt k <> v with Not_found -> true)) real_devs in
      let d2 = List.filter (fun (k, v) -> (try Hashtbl.find devs_tbl k <> v with Not_found -> true)) model_devs in
      let take l = List.filteri (fun i _ -> i < 4) l in
      mismatch id (Printf.sprintf "DevsResult differs at %d key(s): impl=%s model=%s" (max (List.length d1) (List.length d2)) (show_devs (take d1)) (show_devs (take d2)))
    end
  end;
  (* --- fine correspondence 3: CommitsResult *)
  let real_commits_all = List.map (fun cm ->
    let files = List.sort compare (List.map (fun f -> (iarg f 0, iarg f 1, iarg f 2, iarg f 3, iarg f 4)) (args (nth (args cm) 3))) in
    (iarg cm 0, iarg cm 1, iarg cm 2, files)) (args (field "commits" obs)) in
  let conv_commits l = List.map (fun cs ->
    (ni cs.cs_commit, 1, ni cs.cs_author,
     List.sort compare (List.map (fun ((_, f), (lang, st)) -> (ni f, ni lang, ni st.added, ni st.removed, ni st.changed)) cs.cs_files))) l in
  let model_commits = conv_commits (commits_run_fast msteps) in
  (* a CommitsAnalysis instance that was used before: when the listing as a whole is not the listing of this analysis
     but begins with everything the instance held when the analysis began, that prefix is reported once (the listing
     contains commits of ANOTHER analysis: not "exactly the commits replayed on a single branch") and the rest is
     judged like the listing of a first analysis *)
  let stale = if prev_lh <> [] && real_commits_all <> model_commits && is_prefix prev_lh lh then List.length prev_lh else 0 in
  if stale > 0 then begin
    count "analyses_with_stale_listing";
    propfail id (Printf.sprintf "[reuse:commits-listing-not-reset] CommitsResult of a re-used CommitsAnalysis instance lists %d commit(s), the first %d are the entries the instance held from its earlier analyses (Initialize does not reset the listing), %d commit(s) are replayed on a single branch in this analysis"
                   (List.length real_commits_all) stale (List.length model_commits))
  end;
  let real_commits = drop stale real_commits_all in
  if small && model_commits <> conv_commits (commits_run msteps) then mismatch id "driver-failure: commits_run_fast and commits_run disagree";
  let show_ids l = let l = List.map (fun (c, _, _, _) -> c) l in
    if List.length l <= 60 then String.concat " " (List.map string_of_int l)
    else Printf.sprintf "%d commits" (List.length l) in
  if real_commits <> model_commits then
    mismatch id (Printf.sprintf "CommitsResult differs: impl lists [%s] model lists [%s]%s" (show_ids real_commits) (show_ids model_commits)
                   (if List.map (fun (c, _, _, _) -> c) real_commits = List.map (fun (c, _, _, _) -> c) model_commits then " (same commits, different contents)" else ""));

  (* ====================== property oracles on the implementation's outputs ====================== *)
  (* declared truth per replay (commit, parent it was replayed on), aligned with the steps *)
  let truth = List.map (fun o ->
    let a = args o in
    (int_of_sx (nth a 0), int_of_sx (nth a 1),
     List.map (fun f -> { tf = iarg f 0; told = iarg f 1; tob = iarg f 2 <> 0; tnew = iarg f 3; tnb = iarg f 4 <> 0; tins = iarg f 5; tdel = iarg f 6 })
       (List.tl (List.tl a)))) (args (field "truth" obs)) in
  if List.length truth <> nsteps || List.exists2 (fun (c', _, _) r -> c' <> r.rc) truth steps then failwith "truth and steps are not aligned";
  let commits_analysed = List.sort_uniq compare (List.map fst exec_commits) in
  List.iter (fun ci -> count "commits_analysed"; if k_of ci > 1 then count "commits_replayed_on_several_branches") commits_analysed;
  (* --- (P1) every commit counted at most once, exactly once when it must be *)
  let info : (int, cinfo) Hashtbl.t = Hashtbl.create 64 in
  List.iter2 (fun r (_, _, fs) ->
    let ci = (try Hashtbl.find info r.rc with Not_found ->
                let x = { allne = true; somene = false; ckeys = []; nrep = 0 } in Hashtbl.replace info r.rc x; x) in
    if fs = [] then ci.allne <- false else ci.somene <- true;
    ci.nrep <- ci.nrep + 1;
    let k = (r.rtick, r.rauthor) in
    if not (List.mem k ci.ckeys) then ci.ckeys <- k :: ci.ckeys) steps truth;
  let inf ci = Hashtbl.find info ci in
  let must ci = cec || (inf ci).allne in
  let may ci = cec || (inf ci).somene in
  let upper = Hashtbl.create 64 and lower = Hashtbl.create 64 in
  let bump1 h k = Hashtbl.replace h k (1 + try Hashtbl.find h k with Not_found -> 0) in
  List.iter (fun ci ->
    let x = inf ci in
    if may ci then List.iter (fun k -> bump1 upper k) x.ckeys;
    (match x.ckeys with [k] when must ci -> bump1 lower k | _ -> ())) commits_analysed;
  let all_keys = List.sort_uniq compare (List.map fst real_devs @ List.concat_map (fun ci -> (inf ci).ckeys) commits_analysed) in
  let commits_at k = try (let (cm, _, _) = Hashtbl.find devs_tbl k in cm) with Not_found -> 0 in
  let complaints = ref [] in
  let complain m = complaints := m :: !complaints in
  (* which commit is it?  (diagnostics for the long cases: the commits of a key whose counter is off) *)
  let commits_of_key k = List.filter (fun ci -> List.mem k (inf ci).ckeys) commits_analysed in
  let brief l = String.concat " " (List.map string_of_int (List.filteri (fun i _ -> i < 12) l)) ^ (if List.length l > 12 then " ..." else "") in
  List.iter (fun k ->
    let up = (try Hashtbl.find upper k with Not_found -> 0) and lo = (try Hashtbl.find lower k with Not_found -> 0) in
    let got = commits_at k in
    if got > up && List.length !complaints < 5 then
      complain (Printf.sprintf "tick %d developer %d: %d commits counted but only %d countable commit(s) were replayed there (a commit is counted more than once, or an empty one although empty commits are off); commits replayed there: %s" (fst k) (snd k) got up (brief (commits_of_key k)))
    else if got < lo && List.length !complaints < 5 then
      complain (Printf.sprintf "tick %d developer %d: %d commits counted but %d commit(s) that change files w.r.t. every parent (or empty commits on) belong there; commits replayed there: %s" (fst k) (snd k) got lo (brief (commits_of_key k)))) all_keys;
  let total = List.fold_left (fun acc (_, (cm, _, _)) -> acc + cm) 0 real_devs in
  let n_may = List.length (List.filter may commits_analysed) and n_must = List.length (List.filter must commits_analysed) in
  if total > n_may then complain (Printf.sprintf "%d commits counted in total, only %d countable commits analysed" total n_may)
  else if total < n_must then complain (Printf.sprintf "%d commits counted in total, %d commits must be counted" total n_must);
  (* the judgement itself is the extracted once_ok_fast (= once_ok, C12_fast_once_oracle; once_ok accepts the model:
     C12_once_oracle), on the replay sequence whose change lists are the DECLARED differences between the commit
     and the commit its branch held before *)
  let tsteps = List.map2 (fun m (_, _, fs) -> { m with s_changes = List.map (fun _ -> ChInsert (N0, N0, None)) fs }) msteps truth in
  let table = List.map (fun ((t, a), (cm, _, _)) -> ((n t, n a), n cm)) real_devs in
  let keys = List.map (fun (t, a) -> (n t, n a)) all_keys in
  if not (same_keys keys tsteps table) then failwith "the key list handed to once_ok_fast is not the key set of once_ok";
  let ok = once_ok_fast cec tsteps table keys in
  if small && ok <> once_ok cec tsteps table then mismatch id "driver-failure: once_ok_fast and once_ok disagree";
  (match ok, List.rev !complaints with
   | false, m :: _ -> propfail id m
   | false, [] -> propfail id "the Commits counters violate once_ok (every commit at most once, exactly once when it must be counted)"
   | true, m :: _ -> mismatch id ("driver-failure: the diagnostic oracle complains but once_ok accepts: " ^ m)
   | true, [] -> ());
  if n_must < n_may then count "pipe_cases_with_optional_commits";
  List.iter (fun ci -> if k_of ci > 1 then (if must ci then count "merges_must_count" else if may ci then count "merges_may_count" else count "merges_empty")
                       else if not (may ci) then count "empty_single_commits") commits_analysed;
  if List.exists (fun ci -> List.length (inf ci).ckeys > 1) commits_analysed then count "pipe_cases_with_a_commit_in_two_ticks";
  (* --- (P2) the listing = commits replayed on one branch, each once *)
  let listed = List.sort compare (List.map (fun (c, _, _, _) -> c) real_commits) in
  let smap = steps_map msteps in
  let single = List.filter (fun ci -> single_fast smap (n ci)) commits_analysed in
  if small && single <> List.filter (fun ci -> single_branch msteps (n ci)) commits_analysed then mismatch id "driver-failure: single_fast and single_branch disagree";
  if listed <> single then begin
    let diff a b = let h = Hashtbl.create 64 in List.iter (fun x -> Hashtbl.replace h x true) b; List.filter (fun x -> not (Hashtbl.mem h x)) a in
    let rec dups = function a :: (b :: _ as r) -> if a = b then a :: dups r else dups r | _ -> [] in
    let ids l = String.concat " " (List.map string_of_int l) in
    if List.length listed <= 60 && List.length single <= 60 then
      propfail id (Printf.sprintf "CommitsResult lists [%s] but the commits replayed on a single branch are [%s]" (ids listed) (ids single))
    else
      propfail id (Printf.sprintf "CommitsResult lists %d commits, %d commits are replayed on a single branch: listed although replayed on several branches [%s], listed twice [%s], missing [%s]"
                     (List.length listed) (List.length single) (brief (diff listed single)) (brief (dups listed)) (brief (diff single listed)))
  end;
  (* --- (P3) language sums, judged by the extracted langs_sum_ok *)
  List.iter (fun ((t, a), (cm, (x, y, z), langs)) ->
    let dd = { dt_commits = n cm; dt_stats = mk_stats x y z; dt_langs = List.map (fun (l, x, y, z) -> (n l, mk_stats x y z)) langs } in
    count "devticks";
    if not (langs_sum_ok dd) then begin
      let (sx, sy, sz) = List.fold_left (fun (p, q, r) (_, x, y, z) -> (p + x, q + y, r + z)) (0, 0, 0) langs in
      propfail id (Printf.sprintf "tick %d developer %d: languages sum to +%d -%d ~%d but the totals are +%d -%d ~%d" t a sx sy sz x y z)
    end) real_devs;
  (* --- (P4) conservation for every non-merge commit, at three observation points *)
  let exp_ins = Hashtbl.create 64 and exp_del = Hashtbl.create 64 in
  let bump h k v = Hashtbl.replace h k (v + try Hashtbl.find h k with Not_found -> 0) in
  let listing = Hashtbl.create 64 in
  List.iter (fun (c', _, _, files) -> Hashtbl.add listing c' files) real_commits;
  let nfail = ref 0 in
  let propfail id m = incr nfail; if !nfail <= 8 then propfail id m in
  List.iter2 (fun r (_, _, tfs) ->
    if k_of r.rc = 1 then begin
      count "nonmerge_commits";
      (* (a) the diff the pipeline computed against the declared contents of commit and parent *)
      let rows_impl = r.rrows in
      let find side f = List.filter (fun (f', s', _, _, _, _) -> f' = f && s' = side) rows_impl in
      let inserted_rec = ref 0 and deleted_rec = ref 0 in
      List.iter (fun ch -> match ch with
        | ChInsert (_, _, Some l) -> inserted_rec := !inserted_rec + ni l
        | ChDelete (_, _, Some l) -> deleted_rec := !deleted_rec + ni l
        | ChModify (_, _, ds) -> inserted_rec := !inserted_rec + ni (inserted ds); deleted_rec := !deleted_rec + ni (deleted ds)
        | _ -> ()) r.rchanges;
      if not r.renames then begin
        count "nonmerge_commits_judged_per_file";
        let mentioned = Hashtbl.create 8 in
        List.iter (fun t ->
          Hashtbl.replace mentioned t.tf true;
          let conserve what side ins del =
            match find side t.tf with
            | [(_, _, _, a, rr, ch)] ->
                if not (conserve_ok (mk_stats a rr ch) (n ins) (n del)) then
                  propfail id (Printf.sprintf "commit %d file %d (%s): added=%d removed=%d changed=%d but the diff against the parent inserts %d and deletes %d lines"
                                 r.rc t.tf what a rr ch ins del)
            | [] -> propfail id (Printf.sprintf "commit %d file %d (%s): no line statistics" r.rc t.tf what)
            | _ -> mismatch id "duplicate rows" in
          if t.told < 0 then begin
            if t.tnb then (if find 1 t.tf <> [] then propfail id (Printf.sprintf "commit %d: new binary file %d has line statistics" r.rc t.tf))
            else conserve "new" 1 t.tnew 0
          end else if t.tnew < 0 then begin
            if t.tob then (if find 0 t.tf <> [] then propfail id (Printf.sprintf "commit %d: deleted binary file %d has line statistics" r.rc t.tf))
            else conserve "deleted" 0 0 t.told
          end else begin
            (* the recorded script must be a minimal one, otherwise the declared counts do not apply *)
            let ds = List.concat_map (fun ch -> match ch with ChModify (f, _, ds) when ni f = t.tf -> [ds] | _ -> []) r.rchanges in
            match ds with
            | [ds] when ni (inserted ds) = t.tins && ni (deleted ds) = t.tdel ->
                count "modified_files_minimal_diff";
                if t.tins = 0 && t.tdel = 0 then count "files_changed_in_mode_only";
                conserve "modified" 1 t.tins t.tdel
            | [ds] -> count "modified_files_nonminimal_diff";
                let (ra, rr', rc') = (match find 1 t.tf with [(_, _, _, a, rr, ch)] -> (a, rr, ch) | _ -> (-1, -1, -1)) in
                if ni (inserted ds) - ni (deleted ds) <> t.tnew - t.told then
                  propfail id (Printf.sprintf "commit %d file %d: the file has %d lines in the parent and %d in the commit, but the diff the statistics are made from inserts %d and deletes %d lines (added=%d removed=%d changed=%d: added - removed is not the growth of the file%s)" r.rc t.tf
                                 t.told t.tnew (ni (inserted ds)) (ni (deleted ds)) ra rr' rc' (if !ws_case then "; FileDiff.WhitespaceIgnore is on" else ""))
                else if not !ws_case && (ni (inserted ds) < t.tins || ni (deleted ds) < t.tdel) then
                  (* without WhitespaceIgnore two lines are the same line iff their bytes are: no line diff of the declared
                     contents inserts / deletes fewer lines than the minimal one *)
                  propfail id (Printf.sprintf "commit %d file %d: added=%d removed=%d changed=%d come from a diff that inserts %d and deletes %d lines, but every line diff of the declared contents inserts at least %d and deletes at least %d (lines that differ in their bytes were taken for the same line)" r.rc t.tf
                                 ra rr' rc' (ni (inserted ds)) (ni (deleted ds)) t.tins t.tdel)
                else conserve "modified" 1 (ni (inserted ds)) (ni (deleted ds))
            | _ -> propfail id (Printf.sprintf "commit %d file %d differs from the parent but is not among the tree changes" r.rc t.tf)
          end) tfs;
        List.iter (fun (f, _, _, _, _, _) ->
          if not (Hashtbl.mem mentioned f) then propfail id (Printf.sprintf "commit %d: line statistics for file %d which does not differ from the parent" r.rc f)) rows_impl
      end else begin
        (* renames pair a deleted with a created file: judge the growth of the whole commit *)
        if List.exists (fun t -> t.tob || t.tnb) tfs then count "nonmerge_commits_rename_binary_skipped"
        else begin
          count "nonmerge_commits_judged_whole";
          let growth = List.fold_left (fun acc t -> acc + (max t.tnew 0) - (max t.told 0)) 0 tfs in
          let got = List.fold_left (fun acc (_, _, _, a, rr, _) -> acc + a - rr) 0 rows_impl in
          if got <> growth then
            propfail id (Printf.sprintf "commit %d: added - removed = %d but the commit grows the tree by %d lines" r.rc got growth)
        end;
        (* and every row against the recorded script *)
        List.iter (fun ch -> match ch with
          | ChModify (f, _, ds) ->
              (match find 1 (ni f) with
               | [(_, _, _, a, rr, chd)] ->
                   if not (conserve_ok (mk_stats a rr chd) (inserted ds) (deleted ds)) then
                     propfail id (Printf.sprintf "commit %d file %d: added=%d removed=%d changed=%d but the diff inserts %d and deletes %d lines" r.rc (ni f) a rr chd (ni (inserted ds)) (ni (deleted ds)))
               | _ -> propfail id (Printf.sprintf "commit %d file %d: no line statistics" r.rc (ni f)))
          | _ -> ()) r.rchanges
      end;
      List.iter (fun ch -> match ch with ChModify (_, _, ds) -> if not (canonical ds) then count "pipeline_scripts_not_canonical" else count "pipeline_scripts_canonical" | _ -> ()) r.rchanges;
      (* (b) the same commit in the listing *)
      (match Hashtbl.find_all listing r.rc with
       | [files] ->
           let a = List.fold_left (fun acc (_, _, a, _, c) -> acc + a + c) 0 files
           and d = List.fold_left (fun acc (_, _, _, rr, c) -> acc + rr + c) 0 files in
           if a <> !inserted_rec || d <> !deleted_rec then
             propfail id (Printf.sprintf "commit %d in CommitsResult: added+changed=%d removed+changed=%d, the diff inserts %d and deletes %d" r.rc a d !inserted_rec !deleted_rec)
       | _ -> ());
      (* (c) what the developer statistics must contain for it *)
      bump exp_ins (r.rtick, r.rauthor) !inserted_rec; bump exp_del (r.rtick, r.rauthor) !deleted_rec
    end) steps truth;
  List.iter (fun k ->
    let (a, rr, ch) = try (let (_, s, _) = Hashtbl.find devs_tbl k in s) with Not_found -> (0, 0, 0) in
    let ei = (try Hashtbl.find exp_ins k with Not_found -> 0) and ed = (try Hashtbl.find exp_del k with Not_found -> 0) in
    if a + ch <> ei || rr + ch <> ed then
      propfail id (Printf.sprintf "tick %d developer %d: added+changed=%d removed+changed=%d but the non-merge commits there insert %d and delete %d lines"
                     (fst k) (snd k) (a + ch) (rr + ch) ei ed)) all_keys
  ; lh
  end

let pipe id c =
  let cec = bool_of_sx (nth (args (field "cec" c)) 0) in
  let is_scale = (match field_opt "mode" c with Some m -> atom (nth (args m) 0) = "scale" | None -> false) in
  let hib = (match field_opt "hib" c with Some h -> int_of_sx (nth (args h) 0) | None -> 0) in
  if field_opt "pd" c <> None then count "pipe_cases_with_a_given_people_dictionary";
  let flag f = (match field_opt f c with Some h -> int_of_sx (nth (args h) 0) <> 0 | None -> false) in
  ws_case := flag "ws";
  if !ws_case then count "pipe_cases_with_FileDiff_WhitespaceIgnore";
  if flag "ncl" then count "pipe_cases_with_FileDiff_NoCleanup";
  if flag "dto" then count "pipe_cases_with_FileDiff_Timeout";
  ignore (pipe_obs id "" cec is_scale hib [] (field "obs" c))

(* re-use: (obs (run i late cec hib (obs ...)) ...) - every analysis is judged like a first one *)
let reuse id c =
  let is_scale = field_opt "au" c <> None in
  ws_case := false;
  let rc = (match field_opt "rc" c with Some r -> bool_of_sx (nth (args r) 0) | None -> false) in
  let runs = args (field "obs" c) in
  let total = List.length (List.filter (fun r -> not (bool_of_sx (nth (args r) 1))) runs) in
  count "reuse_cases";
  let before : (int, string list) Hashtbl.t = Hashtbl.create 4 in
  let held = ref [] in
  List.iter (fun r ->
    let a = args r in
    let i = int_of_sx (nth a 0) and late = bool_of_sx (nth a 1) and cec = bool_of_sx (nth a 2) and hib = int_of_sx (nth a 3) in
    let obs = nth a 4 in
    if late then begin
      count "reuse_results_changed_afterwards";
      let pfx = Printf.sprintf "analysis %d of %d, its result read AGAIN after the leaf items were used by the later analyses: " (i + 1) total in
      ignore (pipe_obs id pfx cec is_scale hib (try Hashtbl.find before i with Not_found -> []) obs)
    end else begin
      count "reuse_analyses";
      if i > 0 then count "reuse_analyses_on_used_items";
      (* the CommitsAnalysis instance is the one of the analysis before when the case says so (rc 1) or when the whole
         Pipeline object was used again *)
      let same = field_opt "same-pipeline" obs <> None in
      let prev = if rc || same then !held else [] in
      Hashtbl.replace before i prev;
      let pfx = if i = 0 then Printf.sprintf "analysis 1 of %d (new leaf items): " total
        else if same then Printf.sprintf "analysis %d of %d with the SAME Pipeline object as the one before (Initialize, Run again): " (i + 1) total
        else Printf.sprintf "analysis %d of %d with the leaf item instances of the earlier ones (new pipeline, DeployItem, Initialize, Run): " (i + 1) total in
      held := pipe_obs id pfx cec is_scale hib prev obs
    end) runs

(* The extracted list functions are not tail recursive; a script of 10^6 edits needs more than the default 8 MB of
   stack.  Re-execute once under a larger soft limit (the hard limit permitting; otherwise carry on as we are). *)
let () =
  if (try Sys.getenv "VERIF_C12_STACK" with Not_found -> "") = "" then begin
    Unix.putenv "VERIF_C12_STACK" "1";
    (try Unix.execv "/bin/sh" [| "sh"; "-c"; "ulimit -s 4000000 2>/dev/null || ulimit -s unlimited 2>/dev/null; exec \"$0\""; Sys.executable_name |]
     with _ -> ())
  end

let () =
  iter_cases (fun id c ->
    match atom (nth (args (field "mode" c)) 0) with
    | "direct" -> direct id c
    | "pipe" | "scale" -> pipe id c
    | "reuse" -> reuse id c
    | m -> failwith ("unknown mode " ^ m))
