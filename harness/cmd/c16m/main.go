// Harness for C16 (second half): drives the real identity.MergeReversedDictsIdentities and
// identity.MergeReversedDictsLiteral on generated pairs of identity lists and records the returned
// index map (sorted by key) and merged list.
//
// Input field: (ids (a <bytes>) (b <bytes>) ...) - the "a" items in order are rd1, the "b" items rd2.
// Generator kinds starting with "f7" contain a part that occurs in two entries of ONE input list
// (finding F7); all other kinds produce lists without such a part.
//
// Chained merges (round 3): with "c" items there is a third list rd3 and the observation also holds
// (chl ...) = merge(merged(rd1, rd2), rd3), (bc ...) = merge(rd2, rd3), (chr ...) = merge(rd1, merged(rd2, rd3)), each with
// the fields of a single merge.  The intermediate lists are the very slices the first calls returned.  Every call gets
// its arguments uncopied; (inputs b) tells whether they still equal the copies taken before the call, (stable b) whether
// the results of the earlier calls still read the same after the later calls.
package main

import (
	"fmt"
	"sort"
	"strings"

	"gopkg.in/src-d/hercules.v10/verifapi/c16"
	. "verifharness/lib"
)

func str(s string) Sx { return Bytes([]byte(s)) }

func unstr(x Sx) string {
	b := make([]byte, len(x.List))
	for i, v := range x.List {
		b[i] = byte(v.Int())
	}
	return string(b)
}

type mergeFn func([]string, []string) (map[string]c16.MergedIndex, []string)

func serialise(idx map[string]c16.MergedIndex, merged []string) Sx {
	keys := make([]string, 0, len(idx))
	for k := range idx {
		keys = append(keys, k)
	}
	sort.Strings(keys)
	es := make([]Sx, len(keys))
	for i, k := range keys {
		mi := idx[k]
		es[i] = L(str(k), I(mi.Final), I(mi.First), I(mi.Second))
	}
	ms := make([]Sx, len(merged))
	for i, m := range merged {
		ms[i] = str(m)
	}
	return T("ok", T("idx", es...), T("merged", ms...))
}

func observe(f mergeFn, rd1, rd2 []string) Sx {
	var res Sx
	_, p := Catch(func() {
		idx, merged := f(append([]string{}, rd1...), append([]string{}, rd2...))
		res = serialise(idx, merged)
	})
	if p {
		return T("panic")
	}
	return res
}

// result of one call on uncopied arguments
type callRes struct {
	idx      map[string]c16.MergedIndex
	merged   []string
	panicked bool
	first    string
	inputs   bool // the arguments still equal their copies
}

func sameStrings(a, b []string) bool {
	if len(a) != len(b) {
		return false
	}
	for i := range a {
		if a[i] != b[i] {
			return false
		}
	}
	return true
}

func call(f mergeFn, rd1, rd2 []string) *callRes {
	r := &callRes{}
	c1, c2 := append([]string{}, rd1...), append([]string{}, rd2...)
	_, r.panicked = Catch(func() { r.idx, r.merged = f(rd1, rd2) })
	r.inputs = sameStrings(c1, rd1) && sameStrings(c2, rd2)
	if !r.panicked {
		r.first = serialise(r.idx, r.merged).String()
	}
	return r
}

func (r *callRes) sx() Sx {
	if r.panicked {
		return T("panic")
	}
	return serialise(r.idx, r.merged)
}

// mergeObs observes one pair of lists the way emit does: three runs of the identity merge on copies (they must agree), the
// literal merge, and one run of each on the uncopied arguments.
func mergeObs(rd1, rd2 []string) ([]Sx, *callRes, *callRes) {
	first := observe(c16.MergeReversedDictsIdentities, rd1, rd2)
	agree := true
	for k := 0; k < 2; k++ {
		if observe(c16.MergeReversedDictsIdentities, rd1, rd2).String() != first.String() {
			agree = false
		}
	}
	ri := call(c16.MergeReversedDictsIdentities, rd1, rd2)
	if ri.panicked != (first.Tag() == "panic") || (!ri.panicked && ri.first != first.String()) {
		agree = false
	}
	rl := call(c16.MergeReversedDictsLiteral, rd1, rd2)
	return []Sx{T("ident", first), T("agree", B(agree)), T("lit", rl.sx()), T("inputs", B(ri.inputs && rl.inputs))}, ri, rl
}

func emitChain(c *Config, kind string, rd1, rd2, rd3 []string) {
	if !disjoint(rd1) || !disjoint(rd2) || !disjoint(rd3) {
		kind = "f7-" + strings.TrimPrefix(strings.TrimPrefix(kind, "f7-"), "dom-")
	}
	var ids []Sx
	for _, s := range rd1 {
		ids = append(ids, T("a", str(s)))
	}
	for _, s := range rd2 {
		ids = append(ids, T("b", str(s)))
	}
	for _, s := range rd3 {
		ids = append(ids, T("c", str(s)))
	}
	ab, abI, abL := mergeObs(rd1, rd2)
	obs := append([]Sx{}, ab...)
	held := []*callRes{abI, abL}
	if !abI.panicked {
		chl, i2, l2 := mergeObs(abI.merged, rd3)
		obs = append(obs, T("chl", chl...))
		held = append(held, i2, l2)
	}
	bc, bcI, bcL := mergeObs(rd2, rd3)
	obs = append(obs, T("bc", bc...))
	held = append(held, bcI, bcL)
	if !bcI.panicked {
		chr, i2, l2 := mergeObs(rd1, bcI.merged)
		obs = append(obs, T("chr", chr...))
		held = append(held, i2, l2)
	}
	stable := true
	for _, h := range held {
		if !h.panicked && serialise(h.idx, h.merged).String() != h.first {
			stable = false
		}
	}
	obs = append(obs, T("stable", B(stable)))
	c.Emit(T("kind", A(kind)), T("nt", B(len(rd1)+len(rd2)+len(rd3) >= 3)), T("chain", I(1)), T("ids", ids...), T("obs", obs...))
}

// disjoint tells whether no part occurs in two different entries of the list.
func disjoint(rd []string) bool {
	owner := map[string]int{}
	for i, s := range rd {
		for _, p := range strings.Split(s, "|") {
			if j, ok := owner[p]; ok && j != i {
				return false
			}
			owner[p] = i
		}
	}
	return true
}

func emit(c *Config, kind string, rd1, rd2 []string) {
	if !disjoint(rd1) || !disjoint(rd2) {
		if !strings.HasPrefix(kind, "f7") {
			kind = "f7-" + strings.TrimPrefix(kind, "dom-")
		}
	} else if strings.HasPrefix(kind, "f7") {
		kind = "dom-" + kind[3:]
	}
	ids := make([]Sx, 0, len(rd1)+len(rd2))
	for _, s := range rd1 {
		ids = append(ids, T("a", str(s)))
	}
	for _, s := range rd2 {
		ids = append(ids, T("b", str(s)))
	}
	// non-trivial: some part is shared between the two lists (something really merges)
	parts1 := map[string]bool{}
	for _, s := range rd1 {
		for _, p := range strings.Split(s, "|") {
			parts1[p] = true
		}
	}
	shared := false
	for _, s := range rd2 {
		for _, p := range strings.Split(s, "|") {
			if parts1[p] {
				shared = true
			}
		}
	}
	// Go randomises map iteration: a dependence on it shows up as differing answers (agree)
	obs, _, _ := mergeObs(rd1, rd2)
	c.Emit(T("kind", A(kind)), T("nt", B(shared && len(rd1)+len(rd2) >= 2)), T("ids", ids...), T("obs", obs...))
}

// ---- generators ----

// all sequences of pairwise disjoint non-empty subsets of parts (each subset in the given order)
func disjointLists(parts []string) [][]string {
	n := len(parts)
	var subsets []int
	for m := 1; m < 1<<uint(n); m++ {
		subsets = append(subsets, m)
	}
	entry := func(m int) string {
		var ps []string
		for i := 0; i < n; i++ {
			if m&(1<<uint(i)) != 0 {
				ps = append(ps, parts[i])
			}
		}
		return strings.Join(ps, "|")
	}
	var res [][]string
	var rec func(cur []string, used int)
	rec = func(cur []string, used int) {
		res = append(res, append([]string{}, cur...))
		for _, m := range subsets {
			if m&used == 0 {
				rec(append(cur, entry(m)), used|m)
			}
		}
	}
	rec(nil, 0)
	return res
}

// all lists of at most maxLen entries, each a non-empty subset of parts (no disjointness)
func allLists(parts []string, maxLen int) [][]string {
	n := len(parts)
	var entries []string
	for m := 1; m < 1<<uint(n); m++ {
		var ps []string
		for i := 0; i < n; i++ {
			if m&(1<<uint(i)) != 0 {
				ps = append(ps, parts[i])
			}
		}
		entries = append(entries, strings.Join(ps, "|"))
	}
	res := [][]string{{}}
	var rec func(cur []string)
	rec = func(cur []string) {
		if len(cur) > 0 {
			res = append(res, append([]string{}, cur...))
		}
		if len(cur) == maxLen {
			return
		}
		for _, e := range entries {
			rec(append(cur, e))
		}
	}
	rec(nil)
	return res
}

var pool = []string{"ann", "bob", "c", "", "dd", "Eve", "ann@x", "b@y", "@", "c@z", "d@d", "eve@x", "f g", "h"}

// a random list whose entries are pairwise disjoint: a random partition of a random subset of the pool
func randomDisjoint(c *Config, np int, maxEntries int) []string {
	perm := c.Rng.Perm(np)
	k := c.Rng.Intn(np + 1)
	chosen := perm[:k]
	var res []string
	i := 0
	for i < len(chosen) && len(res) < maxEntries {
		sz := 1 + c.Rng.Intn(3)
		if i+sz > len(chosen) {
			sz = len(chosen) - i
		}
		var ps []string
		for _, x := range chosen[i : i+sz] {
			ps = append(ps, pool[x])
		}
		if c.Rng.Intn(8) == 0 { // a part repeated inside one entry
			ps = append(ps, ps[0])
		}
		res = append(res, strings.Join(ps, "|"))
		i += sz
	}
	return res
}

func randomAny(c *Config, np, maxEntries int) []string {
	n := c.Rng.Intn(maxEntries + 1)
	res := make([]string, n)
	for i := range res {
		sz := 1 + c.Rng.Intn(3)
		ps := make([]string, sz)
		for j := range ps {
			ps[j] = pool[c.Rng.Intn(np)]
		}
		res[i] = strings.Join(ps, "|")
	}
	return res
}

func shuffled(c *Config, l []string) []string {
	r := append([]string{}, l...)
	c.Rng.Shuffle(len(r), func(i, j int) { r[i], r[j] = r[j], r[i] })
	return r
}

func main() {
	c := Setup()
	defer c.Close()
	if c.Replay != "" {
		for _, cs := range c.ReplayCases() {
			kind, _ := cs.Field("kind")
			ids, _ := cs.Field("ids")
			var rd1, rd2, rd3 []string
			for _, x := range ids.Args() {
				switch x.Tag() {
				case "a":
					rd1 = append(rd1, unstr(x.Args()[0]))
				case "c":
					rd3 = append(rd3, unstr(x.Args()[0]))
				default:
					rd2 = append(rd2, unstr(x.Args()[0]))
				}
			}
			k := "replay"
			if len(kind.Args()) > 0 {
				k = kind.Args()[0].Atom
			}
			if _, ok := cs.Field("chain"); ok {
				emitChain(c, k, rd1, rd2, rd3)
				continue
			}
			emit(c, k, rd1, rd2)
		}
		return
	}
	// 1. the witness of F7 and its neighbours
	emit(c, "f7-witness", []string{"q|z", "a|p", "b|p"}, []string{"z|b"})
	emit(c, "f7-witness", []string{"a|p", "b|p"}, nil)
	emit(c, "f7-witness", []string{"a", "a"}, nil)
	emit(c, "f7-witness", nil, []string{"x|y", "y"})
	// 2. exhaustive, in the domain: all pairs of lists of pairwise disjoint entries over 4 parts
	//    (a name, a second name, an e-mail, the empty string)
	dl := disjointLists([]string{"a", "b", "x@", ""})
	for _, l1 := range dl {
		for _, l2 := range dl {
			emit(c, "dom-exh4", l1, l2)
		}
	}
	// 3. exhaustive without the disjointness restriction: lists of at most 2 entries over 3 parts
	al := allLists([]string{"a", "b", "x@"}, 2)
	for _, l1 := range al {
		for _, l2 := range al {
			emit(c, "all-exh", l1, l2)
		}
	}
	if c.Thorough() {
		al3 := allLists([]string{"a", "x@"}, 3)
		for _, l1 := range al3 {
			for _, l2 := range al3 {
				emit(c, "all-exh3", l1, l2)
			}
		}
		dl5 := disjointLists([]string{"a", "b", "x@", "", "c"})
		n := c.Count(0, 150000)
		for i := 0; i < n; i++ {
			emit(c, "dom-exh5s", dl5[c.Rng.Intn(len(dl5))], dl5[c.Rng.Intn(len(dl5))])
		}
	}
	// 4. large lists
	scaleMerges(c)
	// 4b. chained merges: (A+B)+C and A+(B+C)
	chainMerges(c, dl)
	// 5. random
	n := c.Count(6000, 80000)
	for i := 0; i < n; i++ {
		switch c.Rng.Intn(8) {
		case 0, 1: // arbitrary overlaps between two lists that are each disjoint
			np := 4 + c.Rng.Intn(len(pool)-3)
			emit(c, "dom-rand", randomDisjoint(c, np, 8), randomDisjoint(c, np, 8))
		case 2: // identical / permuted / partly identical lists
			l := randomDisjoint(c, len(pool), 8)
			l2 := shuffled(c, l)
			if len(l2) > 0 && c.Rng.Intn(2) == 0 {
				l2 = l2[:c.Rng.Intn(len(l2)+1)]
			}
			emit(c, "dom-same", l, l2)
		case 3: // a chain a-b-c-... alternating between the two lists
			k := 2 + c.Rng.Intn(10)
			var l1, l2 []string
			for j := 0; j < k; j++ {
				e := fmt.Sprintf("p%d|p%d", j, j+1)
				if c.Rng.Intn(6) == 0 {
					e = fmt.Sprintf("p%d|m%d@x|p%d", j+1, j, j) // reversed, with an e-mail
				}
				if j%2 == 0 {
					l1 = append(l1, e)
				} else {
					l2 = append(l2, e)
				}
			}
			if c.Rng.Intn(2) == 0 {
				l1 = shuffled(c, l1)
				l2 = shuffled(c, l2)
			}
			if c.Rng.Intn(4) == 0 && len(l2) > 0 { // break the chain
				l2 = l2[1:]
			}
			emit(c, "dom-chain", l1, l2)
		case 4: // disjoint lists (nothing merges) and one empty list
			l1 := randomDisjoint(c, 7, 6)
			var l2 []string
			if c.Rng.Intn(2) == 0 {
				for _, s := range randomDisjoint(c, 7, 6) {
					l2 = append(l2, strings.ReplaceAll(s, "|", "2|")+"2")
				}
			}
			if c.Rng.Intn(2) == 0 {
				l1, l2 = l2, l1
			}
			emit(c, "dom-apart", l1, l2)
		case 5: // sharing only a name / only an e-mail
			l1 := []string{"ann|ann@x", "bob|b@y"}
			l2 := []string{"ann|other@x", "robert|b@y", "carl|c@z"}
			emit(c, "dom-namemail", shuffled(c, l1)[:1+c.Rng.Intn(2)], shuffled(c, l2)[:1+c.Rng.Intn(3)])
		default: // parts shared inside one list: the F7 stream
			np := 3 + c.Rng.Intn(6)
			if c.Rng.Intn(2) == 0 {
				emit(c, "f7-rand", randomAny(c, np, 6), randomAny(c, np, 6))
			} else {
				emit(c, "f7-rand", randomAny(c, np, 5), randomDisjoint(c, np, 5))
			}
		}
	}
}

// chainMerges: three lists, merged as (A+B)+C and A+(B+C); the intermediate result is the slice the first call returned.
func chainMerges(c *Config, dl [][]string) {
	// every triple of lists of pairwise disjoint entries over 3 parts (a name, an e-mail, the empty string)
	d3 := disjointLists([]string{"a", "x@", ""})
	// (quick: a quarter of them)
	for i, l1 := range d3 {
		for j, l2 := range d3 {
			for k, l3 := range d3 {
				if c.Thorough() || (i+j+k)%4 == 0 {
					emitChain(c, "dom-chain3-exh", l1, l2, l3)
				}
			}
		}
	}
	n := c.Count(2000, 40000)
	for i := 0; i < n; i++ {
		switch c.Rng.Intn(5) {
		case 0: // lists over 4 parts from the exhaustive family
			emitChain(c, "dom-chain3-small", dl[c.Rng.Intn(len(dl))], dl[c.Rng.Intn(len(dl))], dl[c.Rng.Intn(len(dl))])
		case 1: // a chain p0-p1-p2-... dealt to the three lists
			k := 3 + c.Rng.Intn(10)
			ls := make([][]string, 3)
			for j := 0; j < k; j++ {
				e := fmt.Sprintf("p%d|p%d", j, j+1)
				if c.Rng.Intn(6) == 0 {
					e = fmt.Sprintf("p%d|m%d@x|p%d", j+1, j, j)
				}
				w := j % 3
				if c.Rng.Intn(4) == 0 {
					w = c.Rng.Intn(3)
				}
				ls[w] = append(ls[w], e)
			}
			for w := range ls {
				if !disjoint(ls[w]) {
					// two neighbours of the chain in one list share a part: keep every other one
					var keep []string
					for q, e := range ls[w] {
						if q%2 == 0 {
							keep = append(keep, e)
						}
					}
					ls[w] = keep
				}
				if c.Rng.Intn(2) == 0 {
					ls[w] = shuffled(c, ls[w])
				}
			}
			emitChain(c, "dom-chain3-chain", ls[0], ls[1], ls[2])
		case 2: // the third list brings new identities only / only known ones / is empty
			np := 4 + c.Rng.Intn(len(pool)-3)
			l1, l2 := randomDisjoint(c, np, 6), randomDisjoint(c, np, 6)
			var l3 []string
			switch c.Rng.Intn(3) {
			case 0:
				for _, s := range randomDisjoint(c, np, 5) {
					l3 = append(l3, strings.ReplaceAll(s, "|", "3|")+"3")
				}
			case 1:
				l3 = shuffled(c, l1)
			}
			emitChain(c, "dom-chain3-new", l1, l2, l3)
		case 3: // parts shared inside one list: the F7 stream
			np := 3 + c.Rng.Intn(6)
			emitChain(c, "f7-chain3", randomAny(c, np, 4), randomDisjoint(c, np, 4), randomAny(c, np, 4))
		default:
			np := 4 + c.Rng.Intn(len(pool)-3)
			emitChain(c, "dom-chain3-rand", randomDisjoint(c, np, 7), randomDisjoint(c, np, 7), randomDisjoint(c, np, 7))
		}
	}
	// large: 1000 (thorough 10^4, 10^5) identities per list, permuted copies / a chain through the three lists
	sizes := []int{300, 1000}
	if c.Thorough() {
		sizes = append(sizes, 10000, 100000)
	}
	for _, n := range sizes {
		var l []string
		for i := 0; i < n; i++ {
			l = append(l, fmt.Sprintf("name %d|n%d@x", i, i))
		}
		emitChain(c, "dom-chain3-scale", l, shuffled(c, l), shuffled(c, l)[:n/2])
		ls := make([][]string, 3)
		for j := 0; j < n; j++ {
			ls[j%3] = append(ls[j%3], fmt.Sprintf("p%d|p%d", j, j+1))
		}
		emitChain(c, "dom-chain3-scale", shuffled(c, ls[0]), ls[1], shuffled(c, ls[2]))
	}
}
