// API operation sequences on one Pipeline: SetFeature / AddItem / DeployItem / RemoveItem in every
// order, with same-named items, the same instance added twice, removal of the older / newer
// instance, redeployment.  The content of the pipeline is recorded after EVERY call (instance ids +
// names); the replay driver compares it with the model and applies the deploy-closure oracle to every
// DeployItem; at the end the pipeline is initialised (dry run) like in the deployment cases.
package main

import (
	"fmt"
	"sort"
	"strings"

	hercules "gopkg.in/src-d/hercules.v10"
	. "verifharness/lib"
)

// op is one API call.
//
//	feat   f                     SetFeature(f)
//	add    <spec>                AddItem(new instance)
//	deploy <spec>                DeployItem(new instance)
//	rm       name first|last     RemoveItem(the oldest / newest item of that name in the pipeline; a stranger when there is none)
//	readd    name first|last     AddItem(that very instance once more)
//	redeploy name first|last     DeployItem(that very instance once more)
//	restore  name first|last     AddItem(the instance of that name that RemoveItem took out earliest / most recently and that was not restored yet; nothing when there is none)
//	init     - <variant 0..3>    Initialize (dry run) in the middle of the sequence: round 3, see round3.go
type op struct {
	kind  string
	sp    spec
	name  string
	which string
}

func (o op) sx() Sx {
	switch o.kind {
	case "feat":
		return T("feat", A(esc(o.name)))
	case "add", "deploy":
		return T(o.kind, o.sp.deploySx())
	}
	return T(o.kind, A(esc(o.name)), A(o.which))
}

func parseOps(f Sx) []op {
	var res []op
	for _, x := range f.Args() {
		a := x.Args()
		switch x.Tag() {
		case "feat":
			res = append(res, op{kind: "feat", name: unesc(a[0].Atom)})
		case "add", "deploy":
			res = append(res, op{kind: x.Tag(), sp: parseDeploys(T("deploys", a[0]))[0]})
		case "rm", "readd", "redeploy", "restore", "init":
			res = append(res, op{kind: x.Tag(), name: unesc(a[0].Atom), which: a[1].Atom})
		}
	}
	return res
}

func findNamed(p *hercules.Pipeline, name, which string) hercules.PipelineItem {
	var found hercules.PipelineItem
	for _, it := range p.VerifItems() {
		if it.Name() == name {
			found = it
			if which == "first" {
				break
			}
		}
	}
	return found
}

// runOps applies the calls to a fresh pipeline; after each call the content of the pipeline as
// (s id name id name ...), ids numbering the instances in the order of their first appearance.
// An init call (round 3) records (i <outcome> (twin <outcome>) (s ...)): the outcome of Initialize on this
// pipeline, the outcome on a FRESH pipeline holding the same instances in the same order (initialised after
// it: the items are shared), and the content of the pipeline after the call - also after a failure.
type seqRun struct {
	steps   []Sx
	p       *hercules.Pipeline
	ids     map[hercules.PipelineItem]int
	insts   []hercules.PipelineItem // by id
	chained bool                    // some Initialize saw an entity with exactly two providers
	nt      bool                    // some Initialize saw >= 2 items and a requirement
}

func hasDup(l []hercules.PipelineItem) bool {
	seen := map[hercules.PipelineItem]bool{}
	for _, it := range l {
		if seen[it] {
			return true
		}
		seen[it] = true
	}
	return false
}

func runOps(ops []op, run int) (res seqRun) {
	p := hercules.NewPipeline(repo)
	res.p = p
	ids := map[hercules.PipelineItem]int{}
	res.ids = ids
	removed := map[string][]hercules.PipelineItem{}
	// round 3 (structures shared between objects): in the odd runs a second, unrelated pipeline is driven through
	// the same registry between the calls (features, deployments, initialisations): nothing of it may show in
	// the pipeline under observation - the runs of a case must not differ, the model knows one pipeline only
	var shadow *hercules.Pipeline
	if run%2 == 1 {
		shadow = hercules.NewPipeline(repo)
	}
	for i, o := range ops {
		if shadow != nil {
			shadowStep(shadow, i+run)
		}
		var initOut []Sx
		_, panicked := Catch(func() {
			switch o.kind {
			case "feat":
				p.SetFeature(o.name)
			case "add":
				p.AddItem(o.sp.instantiate(1000 + i))
			case "deploy":
				p.DeployItem(o.sp.instantiate(1000 + i))
			case "rm":
				it := findNamed(p, o.name, o.which)
				if it == nil {
					it = &synthItem{id: -1, name: o.name}
				} else {
					removed[o.name] = append(removed[o.name], it)
				}
				p.RemoveItem(it)
			case "readd":
				if it := findNamed(p, o.name, o.which); it != nil {
					p.AddItem(it)
				}
			case "redeploy":
				if it := findNamed(p, o.name, o.which); it != nil {
					p.DeployItem(it)
				}
			case "restore":
				if l := removed[o.name]; len(l) > 0 {
					k := len(l) - 1
					if o.which == "first" {
						k = 0
					}
					it := l[k]
					removed[o.name] = append(append([]hercules.PipelineItem{}, l[:k]...), l[k+1:]...)
					p.AddItem(it)
				}
			case "init":
				before := append([]hercules.PipelineItem{}, p.VerifItems()...)
				if hasDup(before) {
					// the same instance twice in the pipeline: the positions of the order cannot be told apart
					initOut = []Sx{T("skipped", A("same-instance-twice"))}
					return
				}
				var specs []spec
				nreq := 0
				for _, it := range before {
					sp := specOf(it)
					specs = append(specs, sp)
					nreq += len(sp.req)
				}
				res.chained = res.chained || chained(specs)
				res.nt = res.nt || (len(specs) >= 2 && nreq > 0)
				v := 0
				fmt.Sscan(o.which, &v)
				v = (v + run) % 4
				initOut = []Sx{initialize(p, ids, v)}
				twin := hercules.NewPipeline(repo)
				for _, it := range before {
					twin.AddItem(it)
				}
				initOut = append(initOut, T("twin", initialize(twin, ids, v)))
			}
		})
		if panicked {
			res.steps = append(res.steps, T("panic"))
			return
		}
		var l []Sx
		for _, it := range p.VerifItems() {
			id, ok := ids[it]
			if !ok {
				id = len(ids)
				ids[it] = id
				res.insts = append(res.insts, it)
			}
			l = append(l, I(id), A(esc(it.Name())))
		}
		if o.kind == "init" {
			res.steps = append(res.steps, T("i", append(initOut, T("s", l...))...))
		} else {
			res.steps = append(res.steps, T("s", l...))
		}
	}
	return
}

var shadowLeaves []string

// shadowStep: one call on the unrelated pipeline
func shadowStep(q *hercules.Pipeline, i int) {
	if shadowLeaves == nil {
		for _, l := range hercules.Registry.GetLeaves() {
			shadowLeaves = append(shadowLeaves, l.Name())
		}
		sort.Strings(shadowLeaves)
	}
	Catch(func() {
		switch i % 4 {
		case 0:
			q.DeployItem(spec{name: shadowLeaves[(i/4)%len(shadowLeaves)], real: true}.instantiate(0))
		case 1:
			initialize(q, map[hercules.PipelineItem]int{}, i%3)
		case 2:
			q.SetFeature("uast")
			q.AddItem(spec{name: "TreeDiff", real: true}.instantiate(0))
		case 3:
			if l := q.VerifItems(); len(l) > 0 {
				q.RemoveItem(l[(i/4)%len(l)])
			}
		}
	})
}

func hasInit(ops []op) bool {
	for _, o := range ops {
		if o.kind == "init" {
			return true
		}
	}
	return false
}

func emitSeq(c *Config, kind string, reg *regTable, ops []op) {
	if hasInit(ops) {
		emitSeqInit(c, kind, reg, ops)
		return
	}
	var outs []Sx
	var first string
	var stepsSx, itemsSx Sx
	nondet := false
	nitems, nreq := 0, 0
	var final []spec
	for r := 0; r < runs; r++ {
		sr := runOps(ops, r)
		steps, p := sr.steps, sr.p
		deployed := p.VerifItems()
		ids := map[hercules.PipelineItem]int{}
		var its []Sx
		nitems, nreq = len(deployed), 0
		final = final[:0]
		for i, it := range deployed {
			ids[it] = i
			s := specOf(it)
			final = append(final, s)
			its = append(its, s.itemSx(i))
			nreq += len(s.req)
		}
		a, b := T("steps", steps...), T("items", its...)
		if r == 0 {
			stepsSx, itemsSx, first = a, b, a.String()+b.String()
		} else if a.String()+b.String() != first {
			nondet = true
		}
		if len(steps) == len(ops) {
			// the same instance twice in the pipeline: the order positions are told apart by index
			seen := map[hercules.PipelineItem]bool{}
			dup := false
			for _, it := range deployed {
				dup = dup || seen[it]
				seen[it] = true
			}
			if dup {
				outs = append(outs, T("skipped", A("same-instance-twice")))
			} else {
				outs = append(outs, initialize(p, ids, r))
			}
		}
	}
	os := make([]Sx, len(ops))
	for i, o := range ops {
		os[i] = o.sx()
	}
	obs := []Sx{stepsSx, itemsSx, T("outs", distinct(outs)...)}
	if nondet {
		obs = append(obs, T("nondet"))
	}
	if chained(final) && !strings.HasSuffix(kind, "-chained") {
		// the known findings of resolve are keyed by the region tag and a kind that ends in -chained
		kind += "-chained"
	}
	c.Emit(append([]Sx{T("kind", A(kind)), T("nt", B(nitems >= 2 && nreq > 0))}, append(worldField(), reg.sx(), T("ops", os...), T("obs", obs...))...)...)
}

// ---- generators ----

func realOp(kind, name string) op { return op{kind: kind, sp: spec{name: name, real: true}} }

// a synthetic item that looks like the registered one of that name (a "customised" instance)
func (t *regTable) copyOp(kind, name string) op {
	e := t.entries[name]
	return op{kind: kind, sp: spec{name: name, prov: e.prov, req: e.req, feats: e.feats, featd: e.featd}}
}

// closureOf: the names DeployItem would add for a registered root with every feature on (used only to
// choose interesting roots; the oracle is the extracted closure_names)
func (t *regTable) closureOf(root string) map[string]bool {
	seen := map[string]bool{root: true}
	queue := []string{root}
	for len(queue) > 0 {
		h := queue[0]
		queue = queue[1:]
		for _, dep := range t.entries[h].req {
			sibs := append([]string{}, t.provided[dep]...)
			if _, ok := t.entries[dep]; ok {
				sibs = append(sibs, dep)
			}
			for _, s := range sibs {
				if !seen[s] {
					seen[s] = true
					queue = append(queue, s)
				}
			}
		}
	}
	return seen
}

func sequences(c *Config, reg *regTable) {
	var leafNames []string
	for _, l := range hercules.Registry.GetLeaves() {
		leafNames = append(leafNames, l.Name())
	}
	sort.Strings(leafNames)
	isLeaf := map[string]bool{}
	for _, n := range leafNames {
		isLeaf[n] = true
	}
	// (A) two items of one name enter the pipeline in every way, one / both / none leave it again, then
	// an analysis is deployed whose requirements reach that name (and one whose requirements do not)
	intros := []string{"add", "deploy", "addcopy"}
	if c.Thorough() {
		intros = append(intros, "deploycopy")
	}
	removals := [][]op{
		nil,
		{{kind: "rm", which: "first"}},
		{{kind: "rm", which: "last"}},
		{{kind: "rm", which: "first"}, {kind: "rm", which: "last"}},
		{{kind: "rm", which: "last"}, {kind: "rm", which: "last"}},
		{{kind: "readd", which: "last"}, {kind: "rm", which: "last"}},
		{{kind: "rm", which: "last"}, {kind: "redeploy", which: "first"}},
	}
	mk := func(how, name string) op {
		switch how {
		case "add", "deploy":
			return realOp(how, name)
		case "addcopy":
			return reg.copyOp("add", name)
		}
		return reg.copyOp("deploy", name)
	}
	for _, name := range reg.names {
		if isLeaf[name] && !c.Thorough() {
			continue
		}
		var reach, other []string
		for _, l := range leafNames {
			if l == name {
				continue
			}
			if reg.closureOf(l)[name] {
				reach = append(reach, l)
			} else {
				other = append(other, l)
			}
		}
		var finals []string
		if len(reach) > 0 {
			finals = append(finals, reach[0])
			if len(reach) > 1 {
				finals = append(finals, reach[len(reach)-1])
			}
		}
		if len(other) > 0 {
			o := other[c.Rng.Intn(len(other))]
			if len(finals) < 2 {
				finals = append(finals, o)
			} else if c.Rng.Intn(2) == 0 {
				finals[1] = o
			}
		}
		if c.Thorough() && len(other) > 1 {
			finals = append(finals, other[c.Rng.Intn(len(other))])
		}
		for _, i1 := range intros {
			for _, i2 := range intros {
				for _, rem := range removals {
					for _, fin := range finals {
						for uast := 0; uast < 3; uast++ { // 0 off, 1 switched on first, 2 switched on just before the last deployment
							if uast != 1 && !c.Thorough() && c.Rng.Intn(4) != 0 {
								continue
							}
							var ops []op
							if uast == 1 {
								ops = append(ops, op{kind: "feat", name: "uast"})
							}
							ops = append(ops, mk(i1, name), mk(i2, name))
							for _, r := range rem {
								r.name = name
								ops = append(ops, r)
							}
							if uast == 2 {
								ops = append(ops, op{kind: "feat", name: "uast"})
							}
							ops = append(ops, realOp("deploy", fin))
							emitSeq(c, "seqpair", reg, ops)
						}
					}
				}
			}
		}
	}
	// (B) every sequence up to a length over a small alphabet
	alphabet := []op{
		realOp("add", "TreeDiff"), realOp("deploy", "TreeDiff"), realOp("add", "IdentityDetector"), realOp("deploy", "Couples"),
		realOp("deploy", "FileDiffRefiner"), {kind: "rm", name: "TreeDiff", which: "first"}, {kind: "rm", name: "TreeDiff", which: "last"},
		{kind: "rm", name: "IdentityDetector", which: "last"}, {kind: "feat", name: "uast"},
	}
	maxLen := 3
	if c.Thorough() {
		maxLen = 4
	}
	var rec func(prefix []op)
	rec = func(prefix []op) {
		if len(prefix) > 0 {
			emitSeq(c, "seqexh", reg, prefix)
		}
		if len(prefix) == maxLen {
			return
		}
		for _, o := range alphabet {
			rec(append(append([]op{}, prefix...), o))
		}
	}
	rec(nil)
	// (C) random sequences over the whole registry, synthetic roots and customised copies
	pool := append(append([]string{}, reg.keys...), reg.names...)
	pool = append(pool, "nonexistent")
	featPool := []string{"uast", "other"}
	for i := c.Count(1500, 10000); i > 0; i-- {
		n := 2 + c.Rng.Intn(11)
		var ops []op
		var used []string // names that entered the pipeline explicitly
		anyName := func() string {
			if len(used) > 0 && c.Rng.Intn(4) != 0 {
				return used[c.Rng.Intn(len(used))]
			}
			return reg.names[c.Rng.Intn(len(reg.names))]
		}
		for k := 0; k < n; k++ {
			switch x := c.Rng.Intn(20); {
			case x < 2:
				ops = append(ops, op{kind: "feat", name: featPool[c.Rng.Intn(2)]})
			case x < 10:
				kind := "add"
				if c.Rng.Intn(2) == 0 {
					kind = "deploy"
				}
				name := anyName()
				var o op
				y := c.Rng.Intn(6)
				if _, registered := reg.entries[name]; !registered {
					y = 5
				}
				switch {
				case y < 3:
					o = realOp(kind, name)
				case y < 5:
					o = reg.copyOp(kind, name)
				default:
					s := spec{name: "Synth" + fmt.Sprint(k%3), req: pick(c, pool, c.Rng.Intn(4))}
					if c.Rng.Intn(2) == 0 {
						s.featd = true
						s.feats = pick(c, featPool, c.Rng.Intn(3))
					}
					o = op{kind: kind, sp: s}
					name = s.name
				}
				used = append(used, name)
				ops = append(ops, o)
			case x < 15:
				ops = append(ops, op{kind: "rm", name: anyName(), which: []string{"first", "last"}[c.Rng.Intn(2)]})
			case x < 17:
				ops = append(ops, op{kind: "readd", name: anyName(), which: []string{"first", "last"}[c.Rng.Intn(2)]})
			default:
				ops = append(ops, op{kind: "redeploy", name: anyName(), which: []string{"first", "last"}[c.Rng.Intn(2)]})
			}
		}
		emitSeq(c, "seqrandom", reg, ops)
	}
}
