// Harness for C13: drives the real plumbing.RenameAnalysis.Consume with fabricated object.Changes and
// cached blobs and records the input change set, everything the model needs as an external answer
// (blob sizes, blobsAreClose and Levenshtein answers for the size-close pairs, the permutations
// sort.Sort produces) and the output change set.
package main

import (
	"fmt"
	"os"
	"path/filepath"
	"runtime"
	"sort"
	"strings"
	"sync/atomic"
	"time"

	"gopkg.in/src-d/go-git.v4/plumbing"
	"gopkg.in/src-d/go-git.v4/plumbing/filemode"
	"gopkg.in/src-d/go-git.v4/plumbing/object"
	api "gopkg.in/src-d/hercules.v10/verifapi/c13"
	. "verifharness/lib"
)

// ---------- blobs ----------

// blobDesc describes the content of a blob by a few integers (the trace stays small):
// nlines lines "f<fam> l<i> xxxx\n" of payload width `width`; the lines i with (i*7+variant)%period == 0
// (period > 0) are replaced by "f<fam> l<i> EDIT<variant>\n"; `bin` puts a NUL byte in front; `tail`
// appends that many 'z' without a newline; `fill` selects the payload letter ('x' for 0, else 'a'+fill-1; from 100 on
// a non-ASCII / invalid UTF-8 / CR payload), so that blobs of equal size can be made dissimilar.
type blobDesc struct {
	fam, nlines, width, variant, period, bin, tail, fill int
	segs                                                []int // see padding.go; nil = the line-based description above
}

func (b blobDesc) sx() Sx {
	if b.segs != nil {
		return Ints(append([]int{-1}, b.segs...))
	}
	return L(I(b.fam), I(b.nlines), I(b.width), I(b.variant), I(b.period), I(b.bin), I(b.tail), I(b.fill))
}

func parseDesc(s Sx) blobDesc {
	v := s.List
	if len(v) > 0 && v[0].Int() == -1 {
		d := blobDesc{segs: []int{}}
		for _, x := range v[1:] {
			d.segs = append(d.segs, x.Int())
		}
		return d
	}
	d := blobDesc{fam: v[0].Int(), nlines: v[1].Int(), width: v[2].Int(), variant: v[3].Int(), period: v[4].Int(), bin: v[5].Int(), tail: v[6].Int()}
	if len(v) > 7 {
		d.fill = v[7].Int()
	}
	return d
}

func (b blobDesc) data() []byte {
	if b.segs != nil {
		return segData(b.segs)
	}
	var sb strings.Builder
	if b.bin != 0 {
		sb.WriteByte(0)
	}
	fill := "x"
	switch {
	case b.fill >= 100:
		fill = exoticFill[(b.fill-100)%len(exoticFill)]
	case b.fill > 0:
		fill = string(rune('a' + (b.fill-1)%26))
	}
	for i := 0; i < b.nlines; i++ {
		if b.period > 0 && (i*7+b.variant)%b.period == 0 {
			fmt.Fprintf(&sb, "f%d l%d EDIT%d\n", b.fam, i, b.variant)
		} else {
			fmt.Fprintf(&sb, "f%d l%d %s\n", b.fam, i, strings.Repeat(fill, b.width))
		}
	}
	sb.WriteString(strings.Repeat("z", b.tail))
	return []byte(sb.String())
}

// payloads for fill codes >= 100: a two-byte rune, invalid UTF-8, three-byte runes, a carriage return, a truncated
// rune, CRLF line ends (blobsAreClose counts runes, splits lines and diffs on rune level)
var exoticFill = []string{"\u00e9", "\xff\xfe", "\u65e5\u672c", "\r", "\xc3", "x\r\n"}

type blob struct {
	hash plumbing.Hash
	desc blobDesc
}

// ---------- names ----------

var dirs = []string{"", "src/", "src/pkg/", "doc/"}

// nameOf maps a path number to a path; base names have varied lengths and overlaps so that the
// Levenshtein ordering of candidates is not trivial.
func nameOf(id int) string {
	k := id / len(dirs)
	return fmt.Sprintf("%s%s%d.go", dirs[id%len(dirs)], strings.Repeat("ab", k%4), k/4)
}

// ---------- changes ----------

// the tree-entry modes a change entry can carry; a change records them as indices into this table
var modeTab = []filemode.FileMode{filemode.Regular, filemode.Executable, filemode.Symlink, filemode.Deprecated, filemode.Submodule}

func modeCode(m filemode.FileMode) int {
	for i, x := range modeTab {
		if x == m {
			return i
		}
	}
	return -1
}

type change struct {
	kind     string // a d m e
	name     int
	from, to int // blob indices
	mf, mt   int // mode (index into modeTab) of the From / To entry
}

// (a name blob mode) (d name blob mode) (m name from to modeFrom modeTo); the modes may be missing (= regular)
func (c change) sx() Sx {
	switch c.kind {
	case "a":
		return T("a", I(c.name), I(c.to), I(c.mt))
	case "d":
		return T("d", I(c.name), I(c.from), I(c.mf))
	case "m":
		return T("m", I(c.name), I(c.from), I(c.to), I(c.mf), I(c.mt))
	}
	return T("e")
}

func parseChange(s Sx) change {
	a := s.Args()
	opt := func(i int) int {
		if i < len(a) {
			if m := a[i].Int(); m >= 0 && m < len(modeTab) {
				return m
			}
		}
		return 0
	}
	switch s.Tag() {
	case "a":
		return change{kind: "a", name: a[0].Int(), to: a[1].Int(), mt: opt(2)}
	case "d":
		return change{kind: "d", name: a[0].Int(), from: a[1].Int(), mf: opt(2)}
	case "m":
		return change{kind: "m", name: a[0].Int(), from: a[1].Int(), to: a[2].Int(), mf: opt(3), mt: opt(4)}
	}
	return change{kind: "e"}
}

type tcase struct {
	kind    string
	thr     int
	timeout int64 // nanoseconds; 0 = the default set by Initialize
	procs   int
	spin    int
	blobs   []blob
	changes []change
	calFrac float64    // > 0: Consume is first run without a timeout and timed; the timeout becomes this fraction of that time
	szq     [][2]int64 // pairs of sizes put to the real sizesAreClose (also outside what Consume can reach: 0, 1, < 32, > 2^32)
	// re-use of the RenameAnalysis instance: before the observed Consume the SAME instance consumes 1 = the reversed
	// change set (additions <-> deletions), 2 = the same change set (copies of the change objects), 3 = a malformed set
	// (Consume returns an error) and then the reversed one; 4..6 = the same followed by a second Configure + Initialize;
	// 7 = the same paths with the blobs rotated among the additions and among the deletions (8: + Configure/Initialize).
	// The model knows nothing of it: the observed call must behave like the call on a fresh instance.
	warm int
}

// the two trees of the diff: every From entry points to treeFrom, every To entry to treeTo (Consume never looks at
// them; the output must carry them along)
var treeFrom, treeTo = &object.Tree{Hash: plumbing.Hash{1}}, &object.Tree{Hash: plumbing.Hash{2}}

func entry(name int, h plumbing.Hash, mode int, tree *object.Tree) object.ChangeEntry {
	nm := nameOf(name)
	return object.ChangeEntry{Name: nm, Tree: tree, TreeEntry: object.TreeEntry{Name: filepath.Base(nm), Mode: modeTab[mode], Hash: h}}
}

func run(tc *tcase) Sx {
	nb := len(tc.blobs)
	cache := map[plumbing.Hash]*api.CachedBlob{}
	cached := make([]*api.CachedBlob, nb)
	blobIdx := map[plumbing.Hash]int{}
	for i, b := range tc.blobs {
		if j, dup := blobIdx[b.hash]; dup {
			// the same hash twice in the table: the first description wins, as in a map
			cached[i] = cached[j]
			continue
		}
		data := b.desc.data()
		cb := &api.CachedBlob{Blob: object.Blob{Hash: b.hash, Size: int64(len(data))}, Data: data}
		cache[b.hash] = cb
		cached[i] = cb
		blobIdx[b.hash] = i
	}
	var changes object.Changes
	nameIdx := map[string]int{}
	var addC, delC []*object.Change
	var addH, delH []plumbing.Hash
	var addI, delI []change
	for _, c := range tc.changes {
		var ch *object.Change
		switch c.kind {
		case "a":
			ch = &object.Change{To: entry(c.name, tc.blobs[c.to].hash, c.mt, treeTo)}
			addC, addH, addI = append(addC, ch), append(addH, tc.blobs[c.to].hash), append(addI, c)
		case "d":
			ch = &object.Change{From: entry(c.name, tc.blobs[c.from].hash, c.mf, treeFrom)}
			delC, delH, delI = append(delC, ch), append(delH, tc.blobs[c.from].hash), append(delI, c)
		case "m":
			ch = &object.Change{From: entry(c.name, tc.blobs[c.from].hash, c.mf, treeFrom), To: entry(c.name, tc.blobs[c.to].hash, c.mt, treeTo)}
		default:
			ch = &object.Change{}
		}
		if c.kind != "e" {
			nameIdx[nameOf(c.name)] = c.name
		}
		changes = append(changes, ch)
	}
	ra := &api.RenameAnalysis{SimilarityThreshold: tc.thr, Timeout: time.Duration(tc.timeout)}
	if tc.timeout%int64(time.Millisecond) == 0 {
		// whole milliseconds: go through Configure, as the pipeline does
		ra = &api.RenameAnalysis{}
		if err := ra.Configure(map[string]interface{}{
			api.ConfigRenameAnalysisSimilarityThreshold: tc.thr,
			api.ConfigRenameAnalysisTimeout:             int(tc.timeout / int64(time.Millisecond))}); err != nil {
			panic(err)
		}
	}
	if err := ra.Initialize(nil); err != nil {
		panic(err)
	}

	// ----- external answers the model takes as oracles, asked of the real code -----
	sizes := make([]Sx, nb)
	for i := range tc.blobs {
		sizes[i] = I64(cached[i].Size)
	}
	var closeTab, distTab []Sx
	seenB := map[[2]int]bool{}
	seenN := map[[2]int]bool{}
	lev := api.LevenshteinContext{}
	// grouped by blob size (the real sizesAreClose is asked once per pair of sizes), so that the cost is
	// proportional to the number of size-close pairs and not to #deleted x #added
	bySize := func(items []change, blobOf func(change) int) (map[int64][]change, []int64) {
		m := map[int64][]change{}
		var keys []int64
		for _, it := range items {
			sz := cached[blobIdx[tc.blobs[blobOf(it)].hash]].Size
			if sz < api.RenameAnalysisMinimumSize {
				continue
			}
			if _, ok := m[sz]; !ok {
				keys = append(keys, sz)
			}
			m[sz] = append(m[sz], it)
		}
		sort.Slice(keys, func(i, j int) bool { return keys[i] < keys[j] })
		return m, keys
	}
	delBy, delSizes := bySize(delI, func(c change) int { return c.from })
	addBy, addSizes := bySize(addI, func(c change) int { return c.to })
	for _, sd := range delSizes {
		for _, sa := range addSizes {
			if !ra.VerifC13SizesAreClose(sd, sa) {
				continue
			}
			for _, d := range delBy[sd] {
				bd := blobIdx[tc.blobs[d.from].hash]
				for _, a := range addBy[sa] {
					ba := blobIdx[tc.blobs[a.to].hash]
					if !seenB[[2]int{bd, ba}] {
						seenB[[2]int{bd, ba}] = true
						// a panic of the direct call is recorded, not fatal: whether Consume survives the pair is what the
						// supervised run below shows
						ask := func(p, q *api.CachedBlob) Sx {
							var x bool
							var e error
							if _, pn := Catch(func() { x, e = ra.VerifC13BlobsAreClose(p, q) }); pn {
								return A("panic")
							}
							if e != nil {
								return A("err")
							}
							return B(x)
						}
						closeTab = append(closeTab, L(I(bd), I(ba), ask(cached[bd], cached[ba]), ask(cached[ba], cached[bd])))
					}
					if !seenN[[2]int{d.name, a.name}] {
						seenN[[2]int{d.name, a.name}] = true
						bn, an := filepath.Base(nameOf(d.name)), filepath.Base(nameOf(a.name))
						distTab = append(distTab, L(I(d.name), I(a.name), I(lev.Distance(bn, an)), I(lev.Distance(an, bn))))
					}
				}
			}
		}
	}
	// the real sizesAreClose on the size pairs of the case (any sizes, also those Consume never compares)
	szc := make([]Sx, len(tc.szq))
	for i, q := range tc.szq {
		szc[i] = B(ra.VerifC13SizesAreClose(q[0], q[1]))
	}
	// the permutations the real sort.Sort produces on the real sortableChanges (cross-checks the
	// driver's port of Go's pdqsort, which the model needs as its sort oracle)
	perm := func(sorted []*object.Change, orig []*object.Change) []int {
		pos := map[*object.Change]int{}
		for i, c := range orig {
			pos[c] = i
		}
		r := make([]int, len(sorted))
		for i, c := range sorted {
			r[i] = pos[c]
		}
		return r
	}
	sortD := perm(api.SortByHash(delC, delH), delC)
	sortA := perm(api.SortByHash(addC, addH), addC)
	// one sample of sortRenameCandidates: the first deleted name against all added names
	csort := T("csort")
	if len(delI) > 0 && len(addI) > 0 {
		cands := make([]int, len(addI))
		ds := make([]int, len(addI))
		origin := filepath.Base(nameOf(delI[0].name))
		for i := range cands {
			cands[i] = i
			ds[i] = lev.Distance(origin, filepath.Base(nameOf(addI[i].name)))
		}
		api.SortRenameCandidates(cands, origin, func(i int) string { return nameOf(addI[i].name) })
		csort = T("csort", Ints(ds), Ints(cands))
	}

	if tc.calFrac > 0 {
		// calibration: the same input (a copy of the change objects: an implementation that writes into them must
		// not disturb the real run) without a timeout, under the same GOMAXPROCS
		cp := make(object.Changes, len(changes))
		for i, ch := range changes {
			x := *ch
			cp[i] = &x
		}
		ra2 := &api.RenameAnalysis{SimilarityThreshold: tc.thr, Timeout: time.Hour}
		if err := ra2.Initialize(nil); err != nil {
			panic(err)
		}
		oldp := runtime.GOMAXPROCS(tc.procs)
		t0 := time.Now()
		Catch(func() {
			ra2.Consume(map[string]interface{}{api.DependencyTreeChanges: cp, api.DependencyBlobCache: cache})
		})
		full := time.Since(t0)
		runtime.GOMAXPROCS(oldp)
		tc.timeout = int64(float64(full) * tc.calFrac)
		if tc.timeout < 2 {
			tc.timeout = 2
		}
		if tc.timeout%int64(time.Millisecond) == 0 {
			tc.timeout++
		}
		ra.Timeout = time.Duration(tc.timeout)
	}

	// ----- re-use of the instance (see tcase.warm) -----
	if tc.warm > 0 {
		warmUp(tc, ra, changes, cache)
	}

	// ----- the run itself, under the requested scheduling perturbation -----
	old := runtime.GOMAXPROCS(tc.procs)
	var stop int32
	for s := 0; s < tc.spin; s++ {
		go func() {
			for atomic.LoadInt32(&stop) == 0 {
				runtime.Gosched()
			}
		}()
	}
	var res map[string]interface{}
	var err error
	_, panicked := Catch(func() {
		res, err = ra.Consume(map[string]interface{}{
			api.DependencyTreeChanges: changes, api.DependencyBlobCache: cache})
	})
	atomic.StoreInt32(&stop, 1)
	runtime.GOMAXPROCS(old)

	var result Sx
	switch {
	case panicked:
		result = T("res", A("panic"))
	case err != nil:
		result = T("res", A("err"))
	default:
		out := res[api.DependencyTreeChanges].(object.Changes)
		side := func(e object.ChangeEntry, tree *object.Tree) Sx {
			if e == (object.ChangeEntry{}) {
				return A("-")
			}
			// path and content: -1 when they are not the input's (a violation of the property); the attributes the
			// property does not speak about go into the mode code: 0..4 the mode, 5 the tree pointer changed, 6 the
			// base name in the tree entry changed, 7 a mode outside the table (fine correspondence only)
			n, ok := nameIdx[e.Name]
			if !ok {
				n = -1
			}
			b, ok := blobIdx[e.TreeEntry.Hash]
			if !ok {
				b = -1
			}
			m := modeCode(e.TreeEntry.Mode)
			switch {
			case e.Tree != tree:
				m = 5
			case e.TreeEntry.Name != filepath.Base(e.Name):
				m = 6
			case m < 0:
				m = 7
			}
			return L(I(n), I(b), I(m))
		}
		outs := make([]Sx, len(out))
		for i, c := range out {
			outs[i] = L(side(c.From, treeFrom), side(c.To, treeTo))
		}
		result = T("res", A("ok"), L(outs...))
	}
	return T("obs", T("sizes", sizes...), T("close", closeTab...), T("dist", distTab...),
		T("sorts", Ints(sortD), Ints(sortA)), csort, T("szc", szc...), result)
}

// The change list of a case is the field `changes`, which ./check shrinks after a failure.  Its shrinker builds one
// candidate per removable element before it runs any (memory quadratic in the length, and every candidate would
// cost seconds to replay), so the list of a large case goes under another name and is reported as it is.
func changesField(n int) string {
	if n > 5000 {
		return "bigchanges"
	}
	return "changes"
}

var kindTime = map[string]time.Duration{}

// emit queues the case for a supervised child (supervise.go); the child calls emitNow.
func emit(c *Config, tc *tcase) {
	if isChild {
		emitNow(c, tc)
		return
	}
	enqueue(c, tc)
}

func caseFields(tc *tcase) []Sx {
	na, nd := 0, 0
	for _, ch := range tc.changes {
		if ch.kind == "a" {
			na++
		}
		if ch.kind == "d" {
			nd++
		}
	}
	bl := make([]Sx, len(tc.blobs))
	for i, b := range tc.blobs {
		bl[i] = L(Bytes(b.hash[:]), b.desc.sx())
	}
	cs := make([]Sx, len(tc.changes))
	for i, ch := range tc.changes {
		cs[i] = ch.sx()
	}
	sq := make([]Sx, len(tc.szq))
	for i, q := range tc.szq {
		sq[i] = L(I64(q[0]), I64(q[1]))
	}
	return []Sx{T("kind", A(tc.kind)), T("nt", B(na >= 1 && nd >= 1)), T("thr", I(tc.thr)), T("timeout", I64(tc.timeout)),
		T("procs", I(tc.procs)), T("spin", I(tc.spin)), T("warm", I(tc.warm)), T("blobs", bl...), T("szq", sq...), T(changesField(len(cs)), cs...)}
}

func emitNow(c *Config, tc *tcase) {
	t0 := time.Now()
	defer func() {
		k := strings.TrimRight(tc.kind, "0123456789")
		if len(tc.changes) > 20000 {
			k = fmt.Sprintf("%s-%d-changes-case-%d", tc.kind, len(tc.changes), c.N)
		}
		kindTime[k] += time.Since(t0)
	}()
	obs := run(tc)
	writeResult(c, append(caseFields(tc), obs))
}

func replayCase(s Sx) *tcase {
	tc := &tcase{kind: "replay", procs: 1}
	get := func(tag string) Sx { f, _ := s.Field(tag); return f }
	if f, ok := s.Field("kind"); ok && isChild {
		tc.kind = f.Args()[0].Atom
	}
	if f, ok := s.Field("warm"); ok {
		tc.warm = f.Args()[0].Int()
	}
	if f, ok := s.Field("calppm"); ok {
		// only between the supervisor and its child: the timeout is still to be calibrated (midrun)
		tc.calFrac = float64(f.Args()[0].Int()) / 1e6
	}
	if f, ok := s.Field("thr"); ok {
		tc.thr = f.Args()[0].Int()
	}
	if f, ok := s.Field("timeout"); ok {
		fmt.Sscan(f.Args()[0].Atom, &tc.timeout)
	}
	if f, ok := s.Field("procs"); ok {
		tc.procs = f.Args()[0].Int()
	}
	if f, ok := s.Field("spin"); ok {
		tc.spin = f.Args()[0].Int()
	}
	for _, b := range get("blobs").Args() {
		var h plumbing.Hash
		for i, x := range b.List[0].List {
			if i < 20 {
				h[i] = byte(x.Int())
			}
		}
		tc.blobs = append(tc.blobs, blob{h, parseDesc(b.List[1])})
	}
	chf, ok := s.Field("changes")
	if !ok {
		chf = get("bigchanges")
	}
	for _, ch := range chf.Args() {
		tc.changes = append(tc.changes, parseChange(ch))
	}
	if f, ok := s.Field("szq"); ok {
		for _, q := range f.Args() {
			var x, y int64
			fmt.Sscan(q.List[0].Atom, &x)
			fmt.Sscan(q.List[1].Atom, &y)
			tc.szq = append(tc.szq, [2]int64{x, y})
		}
	}
	return tc
}

// ---------- generators ----------

const hour = int64(time.Hour)

// adversarial hash patterns: hashes that agree except at a few positions where the bytes cross
// (a[i] < b[i] but a[j] > b[j]); these are the pairs on which "some byte smaller" is not an order
func patternHashes(c *Config, k int) []plumbing.Hash {
	r := c.Rng
	var base plumbing.Hash
	for i := range base {
		switch r.Intn(3) {
		case 0:
			base[i] = 0
		case 1:
			base[i] = 255
		default:
			base[i] = byte(r.Intn(256))
		}
	}
	npos := 1 + r.Intn(4)
	pos := r.Perm(20)[:npos]
	vals := []byte{0, 1, 2, 127, 128, 254, 255}
	hs := make([]plumbing.Hash, 0, k)
	seen := map[plumbing.Hash]bool{}
	// the ends of the domain: the all-zero hash (go-git's "no object") and the all-ones hash as hashes of real blobs
	if r.Intn(8) == 0 {
		hs, seen[plumbing.ZeroHash] = append(hs, plumbing.ZeroHash), true
	}
	if r.Intn(8) == 0 && len(hs) < k {
		var ff plumbing.Hash
		for i := range ff {
			ff[i] = 255
		}
		hs, seen[ff] = append(hs, ff), true
	}
	for len(hs) < k {
		h := base
		for _, p := range pos {
			h[p] = vals[r.Intn(len(vals))]
		}
		if r.Intn(6) == 0 {
			for i := range h {
				h[i] = byte(r.Intn(256))
			}
		}
		if !seen[h] {
			seen[h] = true
			hs = append(hs, h)
		} else if r.Intn(4) == 0 {
			h[r.Intn(20)] = byte(r.Intn(256))
			if !seen[h] {
				seen[h] = true
				hs = append(hs, h)
			}
		}
	}
	return hs
}

func tinyDesc(i int) blobDesc { return blobDesc{fam: i, nlines: 0, tail: i % 20} }

// all change lists of length <= n over {add h, delete h, modify} with h from 3 crossing hashes
func exhaustive(c *Config, n int) {
	hs := []plumbing.Hash{{}, {}, {}}
	hs[0][0], hs[0][1] = 1, 0
	hs[1][0], hs[1][1] = 0, 1
	hs[2][0], hs[2][1] = 1, 1
	blobs := make([]blob, 4)
	for i := 0; i < 3; i++ {
		blobs[i] = blob{hs[i], tinyDesc(i)}
	}
	var h3 plumbing.Hash
	h3[19] = 9
	blobs[3] = blob{h3, tinyDesc(3)}
	var rec func(prefix []change)
	rec = func(prefix []change) {
		tc := &tcase{kind: fmt.Sprintf("ex%d", len(prefix)), thr: 80, timeout: hour, procs: 1 + 15*(len(prefix)%2), blobs: blobs}
		tc.changes = append([]change{}, prefix...)
		emit(c, tc)
		if len(prefix) == n {
			return
		}
		nm := len(prefix)
		for h := 0; h < 3; h++ {
			rec(append(prefix, change{kind: "a", name: nm, to: h}))
			rec(append(prefix, change{kind: "d", name: nm + 40, from: h}))
		}
		rec(append(prefix, change{kind: "m", name: nm + 80, from: 3, to: h3idx(prefix)}))
	}
	rec(nil)
}

func h3idx(prefix []change) int { return len(prefix) % 3 }

// a blob of exactly sz bytes (fam < 10): sz < 8 is "z"*sz, otherwise one line "f<fam> l0 <fill*(sz-7)>\n"
func descOfSize(sz, fam, fill int) blobDesc {
	if sz < 8 {
		return blobDesc{fam: fam, nlines: 0, tail: sz, fill: fill}
	}
	return blobDesc{fam: fam % 10, nlines: 1, width: sz - 7, fill: fill}
}

// sizes around the constants of renames.go: empty, below / at / above RenameAnalysisMinimumSize
var edgeSizes = []int{0, 1, 19, 31, 32, 33, 48}

// many identical hashes in adversarial byte patterns; tiny blobs (stage 1 only) or, when mixed, blobs of
// 0..48 bytes with any threshold and timeout (what stage 1 leaves over reaches stage 2 and the small list)
func hashpat(c *Config, maxChanges int, mixed bool) *tcase {
	r := c.Rng
	k := 1 + r.Intn(6)
	hs := patternHashes(c, k)
	tc := &tcase{kind: "hashpat", thr: 80, timeout: hour, procs: 1 + 15*r.Intn(2)}
	if mixed {
		tc.kind, tc.thr, tc.timeout = "hashmix", pickThr(c), pickTimeout(c)
	}
	for i, h := range hs {
		if mixed {
			tc.blobs = append(tc.blobs, blob{h, descOfSize(edgeSizes[r.Intn(len(edgeSizes))], i, r.Intn(3))})
		} else {
			tc.blobs = append(tc.blobs, blob{h, tinyDesc(i)})
		}
	}
	n := r.Intn(maxChanges + 1)
	for i := 0; i < n; i++ {
		switch r.Intn(7) {
		case 0, 1, 2:
			tc.changes = append(tc.changes, change{kind: "a", name: 2 * i, to: r.Intn(k)})
		case 3, 4, 5:
			tc.changes = append(tc.changes, change{kind: "d", name: 2*i + 1, from: r.Intn(k)})
		default:
			tc.changes = append(tc.changes, change{kind: "m", name: 2*i + 1, from: r.Intn(k), to: r.Intn(k)})
		}
	}
	assignModes(c, tc)
	return tc
}

// ---------- tree-entry modes ----------

func pickMode(c *Config) int {
	// regular, executable and symlink are the common ones
	switch x := c.Rng.Intn(10); {
	case x < 3:
		return 0
	case x < 6:
		return 1
	case x < 8:
		return 2
	case x < 9:
		return 3
	}
	return 4
}

// gives every entry of the case a mode: all regular (what every repository test uses) / every side on its
// own / one mode on the deleted side and another one on the added side (git mv + chmod, file <-> symlink) /
// two modes at random
func assignModes(c *Config, tc *tcase, varied ...bool) {
	r := c.Rng
	pol := r.Intn(8)
	if len(varied) > 0 && varied[0] {
		// never the all-regular policy (for families with a handful of cases)
		pol = 2 + r.Intn(6)
	}
	m1, m2 := pickMode(c), pickMode(c)
	for i := range tc.changes {
		ch := &tc.changes[i]
		switch {
		case pol < 2:
		case pol < 5:
			ch.mf, ch.mt = pickMode(c), pickMode(c)
		case pol < 7:
			ch.mf, ch.mt = m1, m2
			if r.Intn(8) == 0 {
				ch.mf, ch.mt = m2, m1
			}
		default:
			two := [2]int{m1, m2}
			ch.mf, ch.mt = two[r.Intn(2)], two[r.Intn(2)]
		}
	}
}

// all change lists of length <= n over {add, delete} x 2 crossing hashes x {regular, executable}: identical
// content under equal and under different modes in every multiplicity; the blobs have `size` bytes each
func exhaustiveModes(c *Config, n int, kind string, size int, timeout int64) {
	hs := []plumbing.Hash{{}, {}}
	hs[0][0], hs[0][1] = 1, 0
	hs[1][0], hs[1][1] = 0, 1
	blobs := []blob{{hs[0], descOfSize(size, 0, 0)}, {hs[1], descOfSize(size, 1, 4)}}
	var rec func(prefix []change)
	rec = func(prefix []change) {
		tc := &tcase{kind: fmt.Sprintf("%s%d", kind, len(prefix)), thr: 80, timeout: timeout, procs: 1 + 15*(len(prefix)%2), blobs: blobs}
		tc.changes = append([]change{}, prefix...)
		emit(c, tc)
		if len(prefix) == n {
			return
		}
		nm := len(prefix)
		for h := 0; h < 2; h++ {
			for m := 0; m < 2; m++ {
				// names 4k and 4k+1 share the base name (different directories), as a moved file does
				rec(append(prefix, change{kind: "a", name: 4 * nm, to: h, mt: m}))
				rec(append(prefix, change{kind: "d", name: 4*nm + 1, from: h, mf: m}))
			}
		}
	}
	rec(nil)
}

// identical content moved with and without a mode change, in groups of 0..3 deletions and 0..3 additions per
// content hash, at every size class (empty, < 32, 32, 33, >= 32 with similar and dissimilar neighbours of about
// the same size), with every threshold and every timeout; some paths appear on both sides
func modeCase(c *Config) *tcase {
	r := c.Rng
	tc := &tcase{kind: "modes", thr: pickThr(c), timeout: pickTimeout(c), procs: 1 + 15*r.Intn(2), spin: r.Intn(2)}
	if r.Intn(3) == 0 {
		tc.timeout = 1
	}
	sizes := []int{0, 1, 8, 31, 32, 33, 40, 64, 100, 200}
	names := r.Perm(64)
	next := func() int { n := names[0]; names = names[1:]; return n }
	for g, ng := 0, 1+r.Intn(3); g < ng; g++ {
		sz := sizes[r.Intn(len(sizes))]
		bi := len(tc.blobs)
		h := randHash(c)
		if g > 0 && r.Intn(3) == 0 {
			// a hash that differs from the first group's in one byte only
			h = tc.blobs[0].hash
			h[r.Intn(20)] ^= byte(1 << uint(r.Intn(8)))
		}
		tc.blobs = append(tc.blobs, blob{h, descOfSize(sz, g, 0)})
		md, ma := pickMode(c), pickMode(c)
		if r.Intn(4) == 0 {
			ma = md
		}
		nd, na := r.Intn(4), r.Intn(4)
		if nd+na == 0 {
			nd, na = 1, 1
		}
		for i := 0; i < nd; i++ {
			m := md
			if r.Intn(4) == 0 {
				m = pickMode(c)
			}
			tc.changes = append(tc.changes, change{kind: "d", name: next(), from: bi, mf: m})
		}
		for i := 0; i < na; i++ {
			m := ma
			if r.Intn(4) == 0 {
				m = pickMode(c)
			}
			tc.changes = append(tc.changes, change{kind: "a", name: next(), to: bi, mt: m})
		}
		// neighbours of about the same size under other hashes: the same text (hash is a free input), one more
		// byte, another letter
		for k := r.Intn(4); k > 0; k-- {
			d := descOfSize(sz, g, 0)
			switch r.Intn(3) {
			case 0:
				d = descOfSize(sz+1, g, 0)
			case 1:
				d = descOfSize(sz, g, 3+r.Intn(3))
			}
			tc.blobs = append(tc.blobs, blob{randHash(c), d})
			if r.Intn(2) == 0 {
				tc.changes = append(tc.changes, change{kind: "d", name: next(), from: len(tc.blobs) - 1, mf: pickMode(c)})
			} else {
				tc.changes = append(tc.changes, change{kind: "a", name: next(), to: len(tc.blobs) - 1, mt: pickMode(c)})
			}
		}
	}
	if r.Intn(4) == 0 {
		tc.changes = append(tc.changes, change{kind: "m", name: next(), from: 0, to: r.Intn(len(tc.blobs)), mf: pickMode(c), mt: pickMode(c)})
	}
	r.Shuffle(len(tc.changes), func(i, j int) { tc.changes[i], tc.changes[j] = tc.changes[j], tc.changes[i] })
	if r.Intn(4) == 0 {
		// the same path deleted and added (a type change reported as a deletion and an addition)
		var di, ai []int
		for i, ch := range tc.changes {
			if ch.kind == "d" {
				di = append(di, i)
			} else if ch.kind == "a" {
				ai = append(ai, i)
			}
		}
		if len(di) > 0 && len(ai) > 0 {
			tc.changes[ai[r.Intn(len(ai))]].name = tc.changes[di[r.Intn(len(di))]].name
		}
	}
	return tc
}

func randHash(c *Config) plumbing.Hash {
	var h plumbing.Hash
	for i := range h {
		h[i] = byte(c.Rng.Intn(256))
	}
	return h
}

var thresholds = []int{0, 1, 30, 50, 79, 80, 81, 90, 99, 100, -1, 101, 250}

func pickThr(c *Config) int {
	if c.Rng.Intn(3) == 0 {
		return c.Rng.Intn(101)
	}
	return thresholds[c.Rng.Intn(len(thresholds))]
}

func pickTimeout(c *Config) int64 {
	switch c.Rng.Intn(8) {
	case 0:
		return 1 // already expired at the first test
	case 1:
		return int64(1+c.Rng.Intn(200)) * 1000 // 1..200 us
	case 2:
		return int64(time.Millisecond)
	case 3:
		return 0 // Initialize sets the default of 60 s
	}
	return hour
}

// families of similar text blobs (and some binary ones) with sizes >= 32: stage 2
func sim(c *Config, maxChanges int, kind string) *tcase {
	r := c.Rng
	tc := &tcase{kind: kind, thr: pickThr(c), timeout: pickTimeout(c), procs: 1 + 15*r.Intn(2), spin: r.Intn(3)}
	if kind == "sim" && r.Intn(2) == 0 {
		tc.timeout = hour
	}
	nfam := 1 + r.Intn(3)
	nb := 2 + r.Intn(10)
	for i := 0; i < nb; i++ {
		d := blobDesc{fam: r.Intn(nfam), nlines: 1 + r.Intn(8), width: 10 + r.Intn(30), variant: r.Intn(5), period: r.Intn(6), tail: r.Intn(12)}
		if r.Intn(3) == 0 {
			d.nlines = 3
			d.width = 20
		}
		if r.Intn(8) == 0 {
			d.bin = 1
		}
		if r.Intn(6) == 0 {
			d.fill = 100 + r.Intn(len(exoticFill))
		}
		if r.Intn(10) == 0 {
			d = blobDesc{fam: d.fam, nlines: 1, width: 22 + r.Intn(5)} // 30..34 bytes: around the minimum size
		}
		tc.blobs = append(tc.blobs, blob{randHash(c), d})
	}
	n := r.Intn(maxChanges + 1)
	usedA, usedD := map[int]bool{}, map[int]bool{}
	for i := 0; i < n; i++ {
		nm := r.Intn(64)
		switch r.Intn(7) {
		case 0, 1, 2:
			if !usedA[nm] && !usedD[nm] {
				usedA[nm] = true
				tc.changes = append(tc.changes, change{kind: "a", name: nm, to: r.Intn(nb)})
			}
		case 3, 4, 5:
			if !usedA[nm] && !usedD[nm] {
				usedD[nm] = true
				tc.changes = append(tc.changes, change{kind: "d", name: nm, from: r.Intn(nb)})
			}
		default:
			tc.changes = append(tc.changes, change{kind: "m", name: 100 + i, from: r.Intn(nb), to: r.Intn(nb)})
		}
	}
	assignModes(c, tc)
	return tc
}

// one-line blobs whose sizes sit on both sides of the similarity threshold and of the 32-byte minimum
func thresh(c *Config) *tcase {
	r := c.Rng
	tc := &tcase{kind: "thresh", thr: pickThr(c), timeout: hour, procs: 1 + 15*r.Intn(2), spin: r.Intn(2)}
	base := 32 + r.Intn(200)
	nb := 2 + r.Intn(8)
	// exact boundary of sizesAreClose: sizes S and S*thr/100 give abs*10000/S == (100-thr)*100
	boundary := r.Intn(2) == 0
	eff := tc.thr
	if eff < 0 || eff > 100 {
		eff = 80
	}
	if boundary {
		base = 100 * (1 + r.Intn(3))
	}
	for i := 0; i < nb; i++ {
		sz := base
		if boundary && i > 0 {
			sz = base*eff/100 + r.Intn(3) - 1
			if r.Intn(4) == 0 {
				sz = base
			}
			if sz < 8 {
				sz = 8
			}
			tc.blobs = append(tc.blobs, blob{randHash(c), blobDesc{fam: 0, nlines: 1, width: sz - 7}})
			continue
		}
		switch r.Intn(4) {
		case 0:
			sz = base * (100 - r.Intn(101)) / 100
		case 1:
			sz = base + r.Intn(5) - 2
		case 2:
			sz = 30 + r.Intn(5)
		}
		if sz < 8 {
			sz = 8
		}
		// "f0 l0 " + width + "\n" = 7 + width bytes
		tc.blobs = append(tc.blobs, blob{randHash(c), blobDesc{fam: 0, nlines: 1, width: sz - 7, bin: 0}})
	}
	n := 2 + r.Intn(12)
	for i := 0; i < n; i++ {
		if r.Intn(2) == 0 {
			tc.changes = append(tc.changes, change{kind: "a", name: 2 * i, to: r.Intn(nb)})
		} else {
			tc.changes = append(tc.changes, change{kind: "d", name: 2*i + 1, from: r.Intn(nb)})
		}
	}
	assignModes(c, tc)
	// sizesAreClose itself on sizes Consume never compares (0, 1, below 32) and on large ones (2^31, 2^32, 2^40),
	// next to the boundary S*thr/100 of this case
	pool := []int64{0, 1, 2, 31, 32, 33, int64(base), int64(base * eff / 100), int64(base*eff/100 - 1), int64(base*eff/100 + 1),
		99, 100, 101, 1 << 15, 1 << 16, 1<<31 - 1, 1 << 31, 1 << 32, 1<<32 + 1, 1 << 40}
	for i := 0; i < 12; i++ {
		x := pool[r.Intn(len(pool))]
		y := pool[r.Intn(len(pool))]
		switch r.Intn(4) {
		case 0:
			y = x * int64(eff) / 100
		case 1:
			y = x*int64(eff)/100 + int64(r.Intn(3)) - 1
		}
		if y < 0 {
			y = 0
		}
		tc.szq = append(tc.szq, [2]int64{x, y})
	}
	return tc
}

// malformed input: a change with both sides empty somewhere; duplicate paths; a path both added and deleted
func weird(c *Config) *tcase {
	tc := sim(c, 10, "weird")
	r := c.Rng
	tc.timeout = hour
	for k := r.Intn(3); k > 0 && len(tc.changes) > 0; k-- {
		src := tc.changes[r.Intn(len(tc.changes))]
		dup := src
		if r.Intn(2) == 0 && dup.kind == "a" {
			dup.kind, dup.from = "d", dup.to
		}
		tc.changes = append(tc.changes, dup)
	}
	if r.Intn(3) == 0 {
		at := r.Intn(len(tc.changes) + 1)
		tc.changes = append(tc.changes[:at], append([]change{{kind: "e"}}, tc.changes[at:]...)...)
	}
	return tc
}

// the candidate cap: one deleted blob, 55..75 added blobs of about its size of which exactly one is similar,
// placed around rank RenameAnalysisMaxCandidates of the Levenshtein order of the names
func capCase(c *Config) *tcase {
	r := c.Rng
	tc := &tcase{kind: "cap", thr: 80, timeout: hour, procs: 1 + 15*r.Intn(2), spin: r.Intn(2)}
	width := 60 + r.Intn(40)
	tc.blobs = append(tc.blobs, blob{randHash(c), blobDesc{fam: 1, nlines: 2, width: width}})          // deleted
	tc.blobs = append(tc.blobs, blob{randHash(c), blobDesc{fam: 1, nlines: 2, width: width, tail: 1}}) // similar
	tc.blobs = append(tc.blobs, blob{randHash(c), blobDesc{fam: 1, nlines: 2, width: width, fill: 5}}) // dissimilar
	tc.blobs = append(tc.blobs, blob{randHash(c), blobDesc{fam: 1, nlines: 2, width: width, fill: 9, tail: 2}})
	n := 55 + r.Intn(21)
	names := r.Perm(200)[:n+1]
	dname := names[n]
	lev := api.LevenshteinContext{}
	type nd struct{ name, dist int }
	nds := make([]nd, n)
	for i := 0; i < n; i++ {
		nds[i] = nd{names[i], lev.Distance(filepath.Base(nameOf(dname)), filepath.Base(nameOf(names[i])))}
	}
	sort.SliceStable(nds, func(i, j int) bool { return nds[i].dist < nds[j].dist })
	rank := api.RenameAnalysisMaxCandidates - 3 + r.Intn(7)
	if rank >= n {
		rank = n - 1
	}
	similar := nds[rank].name
	tc.changes = append(tc.changes, change{kind: "d", name: dname, from: 0})
	for i := 0; i < n; i++ {
		b := 2 + r.Intn(2)
		if names[i] == similar {
			b = 1
		}
		tc.changes = append(tc.changes, change{kind: "a", name: names[i], to: b})
	}
	assignModes(c, tc)
	if r.Intn(2) == 0 {
		// a second deleted file whose identical content (same hash, all other candidates dissimilar) is added under
		// the name that is farthest away, with another mode: more than RenameAnalysisMaxCandidates closer names
		tc.blobs = append(tc.blobs, blob{randHash(c), blobDesc{fam: 1, nlines: 2, width: width, fill: 13, tail: 1}})
		d1 := -1
		for cand := 0; cand < 400 && d1 < 0; cand++ {
			used := cand == dname
			for i := 0; i < n; i++ {
				used = used || names[i] == cand
			}
			if !used {
				d1 = cand
			}
		}
		far, fard := -1, -1
		for i := 1; i < len(tc.changes); i++ {
			if tc.changes[i].name == similar {
				continue
			}
			if dd := lev.Distance(filepath.Base(nameOf(d1)), filepath.Base(nameOf(tc.changes[i].name))); dd > fard {
				far, fard = i, dd
			}
		}
		md := pickMode(c)
		tc.changes[far].to, tc.changes[far].mt = 4, (md+1+r.Intn(len(modeTab)-1))%len(modeTab)
		tc.changes = append(tc.changes, change{kind: "d", name: d1, from: 4, mf: md})
	}
	if r.Intn(2) == 0 {
		// the same the other way round: matchB's cap
		for i := range tc.changes {
			ch := &tc.changes[i]
			if ch.kind == "a" {
				ch.kind, ch.from, ch.mf = "d", ch.to, ch.mt
			} else {
				ch.kind, ch.to, ch.mt = "a", ch.from, ch.mf
			}
		}
	}
	return tc
}

// more than RenameAnalysisSetSizeLimit leftovers: the candidate cap drops to 1
func big(c *Config, n int) *tcase {
	r := c.Rng
	tc := &tcase{kind: "big", thr: 80, timeout: hour, procs: 16, spin: 0}
	if r.Intn(3) == 0 {
		tc.timeout = int64(1+r.Intn(20)) * int64(time.Millisecond)
	}
	// size classes far apart (x1.3, not size-close at threshold 80) so that the windows stay small; three blobs per class
	classes := 12
	sz := 100
	for k := 0; k < classes; k++ {
		for v := 0; v < 3; v++ {
			// additions take variants 0 ('x') and 1 ('b'), deletions variant 2 ('x'): a deleted blob is similar to
			// the variant-0 additions of its class only, so the second candidate often decides
			tc.blobs = append(tc.blobs, blob{randHash(c), blobDesc{fam: k, nlines: 1, width: sz - 7 + v, variant: v, fill: (v % 2) * 2}})
		}
		sz = sz * 13 / 10
	}
	tc.blobs = append(tc.blobs, blob{randHash(c), tinyDesc(1)})
	for i := 0; i < n; i++ {
		k := r.Intn(classes)
		b := 3*k + r.Intn(2) // additions take variants 0 and 1, deletions variant 2: few shared hashes
		if i%2 == 1 {
			b = 3*k + 2
		}
		if r.Intn(25) == 0 {
			b = 3 * k
		}
		if r.Intn(50) == 0 {
			b = 3 * classes
		}
		if i%2 == 0 {
			tc.changes = append(tc.changes, change{kind: "a", name: 2 * i, to: b})
		} else {
			tc.changes = append(tc.changes, change{kind: "d", name: 2*i + 1, from: b})
		}
	}
	assignModes(c, tc, true)
	return tc
}

// the timeout expires WHILE stage 2 runs: 4..10 deleted and as many added blobs of about one size, mostly
// dissimilar (every blob has many candidates and most comparisons fail, so the matchers are busy for a while),
// a few similar pairs and identical hashes; Consume is timed without a timeout first and then run with
// 3..97 % of that time (the recorded timeout is the one used)
func midrun(c *Config) *tcase {
	r := c.Rng
	tc := &tcase{kind: "midrun", thr: []int{80, 80, 50, 90, 30}[r.Intn(5)], timeout: hour, procs: 1 + 15*r.Intn(2), spin: r.Intn(3)}
	tc.calFrac = 0.03 + 0.94*r.Float64()
	n := 4 + r.Intn(7)
	nl := 2 + r.Intn(2)
	w := 10 + r.Intn(10)
	for i := 0; i < 2*n; i++ {
		d := blobDesc{fam: i, nlines: nl, width: w, fill: 1 + i%26, tail: r.Intn(3)}
		if i >= n && r.Intn(5) == 0 {
			// similar to a deleted blob: the same text, one line edited
			d = tc.blobs[r.Intn(n)].desc
			d.period, d.variant = nl, r.Intn(nl)
		}
		tc.blobs = append(tc.blobs, blob{randHash(c), d})
	}
	names := r.Perm(64)
	for i := 0; i < n; i++ {
		tc.changes = append(tc.changes, change{kind: "d", name: names[i], from: i})
		b := n + i
		if r.Intn(10) == 0 {
			b = r.Intn(n) // identical hash: an exact rename
		}
		tc.changes = append(tc.changes, change{kind: "a", name: names[n+i], to: b})
	}
	if r.Intn(2) == 0 {
		tc.changes = append(tc.changes, change{kind: "m", name: names[2*n], from: 0, to: n})
	}
	r.Shuffle(len(tc.changes), func(i, j int) { tc.changes[i], tc.changes[j] = tc.changes[j], tc.changes[i] })
	assignModes(c, tc)
	return tc
}

// ---------- scale: 10^3 .. 10^6 changes ----------

// H distinct hashes that carry the index i in three bytes: "be0" big-endian in bytes 0..2 (hash order = index
// order), "be17" in bytes 17..19 behind a common 17-byte prefix, "le0" little-endian in bytes 0..2 (hash order
// crosses index order), "mid" in bytes 9..11, "rand" random bytes
func scaleHashes(c *Config, H int, shape string) []plumbing.Hash {
	r := c.Rng
	var base plumbing.Hash
	for i := range base {
		base[i] = byte(r.Intn(256))
	}
	hs := make([]plumbing.Hash, H)
	seen := map[plumbing.Hash]bool{}
	for i := 0; i < H; i++ {
		h := base
		b0, b1, b2 := byte(i>>16), byte(i>>8), byte(i)
		switch shape {
		case "be0":
			h[0], h[1], h[2] = b0, b1, b2
		case "be17":
			h[17], h[18], h[19] = b0, b1, b2
		case "le0":
			h[0], h[1], h[2] = b2, b1, b0
		case "mid":
			h[9], h[10], h[11] = b0, b1, b2
		default:
			for {
				for k := range h {
					h[k] = byte(r.Intn(256))
				}
				if !seen[h] {
					break
				}
			}
		}
		seen[h] = true
		hs[i] = h
	}
	return hs
}

// stage 1 (and the assembly) at scale: n changes over H content hashes, every blob smaller than 32 bytes so that
// nothing reaches the quadratic stage 2.  order: how the hash index runs along the change list ("asc", "desc",
// "rand", "per<p>" = index j mod p); split: which changes are additions ("alt" every other one, "halves" the first
// half, "rand" 60 %, "few" one in 64); one change in 200 is a modification; modes vary.
func scaleStage1(c *Config, n, H int, shape, order, split string, timeout int64) *tcase {
	r := c.Rng
	tc := &tcase{kind: "scale", thr: 80, timeout: timeout, procs: 16}
	for i, h := range scaleHashes(c, H, shape) {
		tc.blobs = append(tc.blobs, blob{h, blobDesc{fam: 0, tail: (i * 7) % 32}})
	}
	period := 0
	if strings.HasPrefix(order, "per") {
		fmt.Sscan(order[3:], &period)
		if period > H {
			period = H
		}
	}
	tc.changes = make([]change, 0, n)
	for j := 0; j < n; j++ {
		var hi int
		switch {
		case order == "asc":
			hi = int(int64(j) * int64(H) / int64(n))
		case order == "desc":
			hi = H - 1 - int(int64(j)*int64(H)/int64(n))
		case period > 0:
			hi = j % period
		default:
			hi = r.Intn(H)
		}
		add := false
		switch split {
		case "alt":
			add = j%2 == 0
		case "halves":
			add = j < n/2
		case "few":
			add = j%64 == 0
		default:
			add = r.Intn(10) < 6
		}
		switch {
		case j%200 == 199:
			tc.changes = append(tc.changes, change{kind: "m", name: j, from: hi, to: r.Intn(H)})
		case add:
			tc.changes = append(tc.changes, change{kind: "a", name: j, to: hi})
		default:
			tc.changes = append(tc.changes, change{kind: "d", name: j, from: hi})
		}
	}
	assignModes(c, tc, true)
	return tc
}

// stage 2 at scale: n changes in `classes` size classes; threshold 100 makes a class one exact size (32+k bytes,
// the windows stay small however many changes there are), otherwise the classes are 3 % apart at threshold 99.
// Per class: blob 0 and blob 1 are the same text under two hashes (deleted as 0, added as 1: found by similarity
// only), blob 2 is another text of the same size; a few shared hashes (exact renames) and small blobs.
func scaleStage2(c *Config, n, classes, thr int, timeout int64) *tcase {
	r := c.Rng
	tc := &tcase{kind: "scale2", thr: thr, timeout: timeout, procs: 16}
	sz := 100.0
	for k := 0; k < classes; k++ {
		size := 32 + k
		if thr < 100 {
			size = int(sz)
			sz *= 1.03
		}
		// the other text differs at its end only (one byte at threshold 100, 2 % of the bytes otherwise): not similar,
		// and cheap for diffmatchpatch, which strips the common prefix
		t := 1
		if thr < 100 {
			t = size/50 + 1
		}
		tc.blobs = append(tc.blobs, blob{randHash(c), descOfSize(size, k, 0)}, blob{randHash(c), descOfSize(size, k, 0)},
			blob{randHash(c), blobDesc{fam: k % 10, nlines: 1, width: size - 7 - t, tail: t}})
	}
	small := len(tc.blobs)
	tc.blobs = append(tc.blobs, blob{randHash(c), tinyDesc(3)}, blob{randHash(c), tinyDesc(31)})
	for j := 0; j < n; j++ {
		k := r.Intn(classes)
		add := j%2 == 0
		b := 3 * k
		switch x := r.Intn(20); {
		case x < 9 && add:
			b = 3*k + 1
		case x < 9:
			b = 3 * k
		case x < 16:
			b = 3*k + 2 // the same hash on both sides: exact renames
		case x < 18:
			b = 3*k + r.Intn(2)
		default:
			b = small + r.Intn(2)
		}
		if add {
			tc.changes = append(tc.changes, change{kind: "a", name: j, to: b})
		} else {
			tc.changes = append(tc.changes, change{kind: "d", name: j, from: b})
		}
	}
	assignModes(c, tc, true)
	return tc
}

// exactly `left` changes are left over by stage 1 (no hash is shared), around RenameAnalysisSetSizeLimit: above
// it the candidate cap drops from 50 to 1.  In every size class a quarter of the deleted and a quarter of the added
// blobs are similar to each other, the rest is dissimilar to everything: whether a blob finds its partner among
// the ~75 candidates depends on the cap, for matchA as well as for matchB.
func limitCase(c *Config, left int) *tcase {
	r := c.Rng
	tc := &tcase{kind: "limit", thr: 80, timeout: hour, procs: 1 + 15*r.Intn(2)}
	groups := left / 8
	sz := 40
	classes := 10
	for k := 0; k < classes; k++ {
		// x1.3 apart: not size-close at threshold 80.  The dissimilar blobs share a prefix with the others and end in
		// 30 % / 60 % other bytes (similarity 70 % and less, and cheap for diffmatchpatch)
		t := sz * 3 / 10
		tc.blobs = append(tc.blobs, blob{randHash(c), descOfSize(sz, k, 0)}, blob{randHash(c), descOfSize(sz+1, k, 0)},
			blob{randHash(c), blobDesc{fam: k, nlines: 1, width: sz - 7 - t, tail: t}},
			blob{randHash(c), blobDesc{fam: k, nlines: 1, width: sz + 1 - 7 - 2*t, tail: 2 * t}})
		sz = sz * 13 / 10
	}
	small := len(tc.blobs)
	tc.blobs = append(tc.blobs, blob{randHash(c), tinyDesc(5)})
	// names at random: the name distance must say nothing about who belongs to whom
	names := r.Perm(4 * left)
	nm := 0
	next := func() int { nm++; return names[nm-1] }
	for g := 0; g < groups; g++ {
		k := g % classes
		tc.changes = append(tc.changes, change{kind: "d", name: next(), from: 4 * k}, change{kind: "a", name: next(), to: 4*k + 1})
		for i := 0; i < 3; i++ {
			tc.changes = append(tc.changes, change{kind: "d", name: next(), from: 4*k + 2}, change{kind: "a", name: next(), to: 4*k + 3})
		}
	}
	for len(tc.changes) < left {
		tc.changes = append(tc.changes, change{kind: "a", name: next(), to: small})
	}
	r.Shuffle(len(tc.changes), func(i, j int) { tc.changes[i], tc.changes[j] = tc.changes[j], tc.changes[i] })
	assignModes(c, tc, true)
	return tc
}

func scaleFamily(c *Config) {
	r := c.Rng
	ms := int64(time.Millisecond)
	// quick tier (also after a correspondence break: the search repeats the harness many times)
	emit(c, scaleStage1(c, 1000, 1, "rand", "rand", "alt", hour))
	emit(c, scaleStage1(c, 1000, 255, "be0", "asc", "alt", hour))
	emit(c, scaleStage1(c, 1023, 256, "le0", "desc", "rand", 1))
	emit(c, scaleStage1(c, 1025, 257, "be17", "per16", "halves", hour))
	emit(c, scaleStage1(c, 4097, 1000, "mid", "per33", "rand", 0))
	emit(c, scaleStage1(c, 10000, 2, "rand", "rand", "rand", hour))
	emit(c, scaleStage1(c, 10000, 5000, "be17", "desc", "alt", hour))
	emit(c, scaleStage1(c, 10007, 10007, "le0", "asc", "halves", hour))
	emit(c, scaleStage1(c, 16385, 4096, "be0", "per4095", "few", ms))
	emit(c, scaleStage1(c, 70001, 4099, "be17", "rand", "rand", hour))
	for _, left := range []int{api.RenameAnalysisSetSizeLimit - 1, api.RenameAnalysisSetSizeLimit, api.RenameAnalysisSetSizeLimit + 1, api.RenameAnalysisSetSizeLimit + 2} {
		emit(c, limitCase(c, left))
	}
	emit(c, scaleStage2(c, 1000, 40, 100, hour))
	emit(c, scaleStage2(c, 10000, 400, 100, hour))
	emit(c, scaleStage2(c, 3000, 60, 99, hour))
	if c.Tier != "thorough" {
		return
	}
	shapes := []string{"be0", "be17", "le0", "mid", "rand"}
	orders := []string{"asc", "desc", "rand", "per256", "per255", "per257", "per65536", "per65535", "per65537", "per1024", "per1023"}
	splits := []string{"alt", "halves", "rand", "few"}
	for _, n := range []int{1000, 4096, 10000, 32767, 32768, 32769, 65535, 65536, 65537, 100000} {
		for k := 0; k < 3; k++ {
			H := []int{1, 2, 16, 255, 256, 257, 1000, 32768, 65535, 65536, 65537, n}[r.Intn(12)]
			if H > n {
				H = n
			}
			emit(c, scaleStage1(c, n, H, shapes[r.Intn(len(shapes))], orders[r.Intn(len(orders))], splits[r.Intn(len(splits))],
				[]int64{hour, hour, 1, 0, ms}[r.Intn(5)]))
		}
	}
	emit(c, scaleStage1(c, 100000, 65537, "be0", "rand", "rand", hour))
	emit(c, scaleStage1(c, 131073, 131073, "le0", "desc", "alt", hour))
	emit(c, scaleStage1(c, 500000, 1000, "be17", "rand", "rand", hour))
	emit(c, scaleStage1(c, 1000000, 70000, "be0", "per65537", "alt", hour))
	emit(c, scaleStage2(c, 30000, 1000, 100, hour))
	emit(c, scaleStage2(c, 100000, 2000, 100, hour))
	emit(c, scaleStage2(c, 20000, 150, 99, 20*ms))
	for _, left := range []int{999, 1000, 1001, 1002, 1003, 2000} {
		emit(c, limitCase(c, left))
	}
}


func main() {
	c := Setup()
	defer c.Close()
	defer flushPending(c)
	if f := os.Getenv("C13_TIMING"); f != "" {
		// development aid: cumulated wall time per generator family
		defer func() {
			var sb strings.Builder
			for k, v := range kindTime {
				fmt.Fprintf(&sb, "%s %.2fs\n", k, v.Seconds())
			}
			os.WriteFile(f, []byte(sb.String()), 0o644)
		}()
	}
	// RenameAnalysis.Initialize logs every adjusted threshold through a logger it creates on os.Stderr
	if devnull, err := os.OpenFile(os.DevNull, os.O_WRONLY, 0); err == nil {
		os.Stderr = devnull
	}
	if c.Replay != "" {
		for _, cs := range c.ReplayCases() {
			emit(c, replayCase(cs))
		}
		return
	}
	if os.Getenv("C13_ONLY") == "padding" {
		// development aid: the padding family alone
		for i := c.Count(800, 25000); i > 0; i-- {
			emit(c, padding(c))
		}
		return
	}
	if os.Getenv("C13_ONLY") == "scale" {
		// development aid: the scale family alone
		scaleFamily(c)
		return
	}
	if c.Thorough() {
		exhaustive(c, 5)
	} else {
		exhaustive(c, 4)
	}
	if c.Thorough() {
		exhaustiveModes(c, 5, "exm", 5, hour)
		exhaustiveModes(c, 4, "exmt", 40, 1)
		exhaustiveModes(c, 4, "exms", 40, 0)
	} else {
		exhaustiveModes(c, 4, "exm", 5, hour)
		exhaustiveModes(c, 3, "exmt", 40, 1)
		exhaustiveModes(c, 3, "exms", 40, 0)
	}
	for i := c.Count(1000, 30000); i > 0; i-- {
		emit(c, hashpat(c, 40, false))
	}
	for i := c.Count(700, 20000); i > 0; i-- {
		tc := hashpat(c, 40, true)
		tc.warm = pickWarm(c)
		emit(c, tc)
	}
	for i := c.Count(200, 5000); i > 0; i-- {
		emit(c, hashpat(c, 200, false))
	}
	for i := c.Count(1200, 30000); i > 0; i-- {
		tc := modeCase(c)
		tc.warm = pickWarm(c)
		emit(c, tc)
	}
	for i := c.Count(1500, 40000); i > 0; i-- {
		tc := sim(c, 24, "sim")
		tc.warm = pickWarm(c)
		emit(c, tc)
	}
	for i := c.Count(600, 15000); i > 0; i-- {
		tc := sim(c, 60, "timeout")
		tc.warm = pickWarm(c)
		emit(c, tc)
	}
	// binary and text blobs with long repetitive regions, chunks removed / inserted, both directions
	for i := c.Count(800, 25000); i > 0; i-- {
		tc := padding(c)
		if i%4 == 0 {
			tc.warm = pickWarm(c)
		}
		emit(c, tc)
	}
	for i := c.Count(120, 4000); i > 0; i-- {
		emit(c, midrun(c))
	}
	for i := c.Count(800, 20000); i > 0; i-- {
		emit(c, thresh(c))
	}
	for i := c.Count(300, 6000); i > 0; i-- {
		tc := weird(c)
		tc.warm = pickWarm(c)
		emit(c, tc)
	}
	for i := c.Count(150, 3000); i > 0; i-- {
		emit(c, capCase(c))
	}
	for i := c.Count(1, 12); i > 0; i-- {
		emit(c, big(c, 2300))
	}
	scaleFamily(c)
}
