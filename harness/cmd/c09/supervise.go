// Crash isolation for the C09 harness.  Allocator.Hibernate / Boot compress and decompress the arena columns in
// goroutines of their own: a panic there (an index out of range on a damaged or half-read column, say) cannot be
// recovered by the caller of Pipeline.Run and kills the process.  The harness therefore runs as a supervisor and a
// child: the child does all the work and notes, before every run of the pipeline, the input of that run in a journal
// file; when the child dies during a run WITH hibernation the supervisor writes a trace that consists of that one
// input with the outcome (panic crash), which the driver reports as a property failure with a concrete replayable
// input (the replay crashes the child again).  A crash during a run without hibernation is not a C09 matter and is
// passed on as a failure of the harness.  A run with hibernation that does not return within C09_RUN_LIMIT seconds
// (default 300) is killed and recorded as (panic hang) in the same way.
package main

import (
	"fmt"
	"io/ioutil"
	"os"
	"os/exec"
	"strconv"
	"strings"
	"time"

	. "verifharness/lib"
	"verifharness/synth"
)

var journalPath = os.Getenv("C09_JOURNAL")

// inputFields are the fields of a case line that describe its input (what parseCase reads).
func inputFields(kind string, nt int, h *synth.Hist, G, S int, cfg runCfg) []Sx {
	fields := []Sx{T("kind", A(kind)), T("nt", I(nt)),
		histSx(h), T("G", I(G)), T("S", I(S)),
		T("dist", I(cfg.dist)), T("thr", I(cfg.thr)), T("disk", B(cfg.disk)), T("wrap", B(cfg.wrap)),
		faultSx(cfg)}
	fields = append(fields, cfg.optsSx()...)
	if cfg.prior != nil {
		pc := cfg.prior
		pf := []Sx{T("dist", I(pc.dist)), T("thr", I(pc.thr)), T("disk", B(pc.disk)), faultSx(*pc), T("clean", B(pc.cleanDir))}
		pf = append(pf, T("samepipe", B(pc.samePipe)), T("upto", I(pc.upto)))
		if pc.hist != nil && !pc.samePipe {
			pf = append(pf, histSx(pc.hist))
		}
		fields = append(fields, T("prior", pf...))
	}
	return fields
}

func journal(h *synth.Hist, G, S int, cfg runCfg) {
	if journalPath == "" {
		return
	}
	phase := "run"
	if cfg.dist == 0 && (cfg.prior == nil || cfg.prior.dist == 0) {
		phase = "base"
	}
	fields := inputFields("crash", 1, h, G, S, cfg)
	parts := make([]string, len(fields))
	for i, f := range fields {
		parts[i] = f.String()
	}
	ioutil.WriteFile(journalPath, []byte(phase+"\n"+strings.Join(parts, " ")+"\n"), 0644)
}

func journalIdle() {
	if journalPath != "" {
		ioutil.WriteFile(journalPath, []byte("idle\n"), 0644)
	}
}

func outArg() string {
	out := "trace.txt"
	for i, a := range os.Args[1:] {
		a = strings.TrimPrefix(a, "-")
		a = strings.TrimPrefix(a, "-")
		if a == "out" && i+2 < len(os.Args) {
			out = os.Args[i+2]
		} else if strings.HasPrefix(a, "out=") {
			out = a[4:]
		}
	}
	return out
}

// supervise runs the harness proper as a child process; it returns only in the child.
func supervise() {
	if os.Getenv("C09_CHILD") != "" {
		return
	}
	out := outArg()
	jp := out + ".journal"
	os.Remove(jp)
	dir, err := ioutil.TempDir("", "c09-")
	if err != nil {
		fmt.Fprintln(os.Stderr, err)
		os.Exit(2)
	}
	cmd := exec.Command(os.Args[0], os.Args[1:]...)
	cmd.Env = append(os.Environ(), "C09_CHILD=1", "C09_JOURNAL="+jp, "C09_BASEDIR="+dir)
	cmd.Stdout = os.Stdout
	cmd.Stderr = os.Stderr
	cmd.Stdin = os.Stdin
	if err = cmd.Start(); err != nil {
		os.RemoveAll(dir)
		fmt.Fprintln(os.Stderr, err)
		os.Exit(2)
	}
	// watchdog: one run of the pipeline that takes longer than the limit (default 300 s; the largest run of the
	// thorough tier takes 40 s) counts as a run that never returns
	limit := 300 * time.Second
	if v, e := strconv.Atoi(os.Getenv("C09_RUN_LIMIT")); e == nil && v > 0 {
		limit = time.Duration(v) * time.Second
	}
	done := make(chan error, 1)
	go func() { done <- cmd.Wait() }()
	hung := false
wait:
	for {
		select {
		case err = <-done:
			break wait
		case <-time.After(time.Second):
			if st, e := os.Stat(jp); e == nil && time.Since(st.ModTime()) > limit {
				if data, e := ioutil.ReadFile(jp); e == nil && strings.HasPrefix(string(data), "run\n") {
					hung = true
					cmd.Process.Kill()
					err = <-done
					break wait
				}
			}
		}
	}
	os.RemoveAll(dir)
	if err == nil {
		os.Remove(jp)
		os.Exit(0)
	}
	code := 2
	if ee, ok := err.(*exec.ExitError); ok && ee.ExitCode() > 0 {
		code = ee.ExitCode()
	}
	data, jerr := ioutil.ReadFile(jp)
	os.Remove(jp)
	lines := strings.Split(string(data), "\n")
	if jerr != nil || len(lines) < 2 || lines[0] != "run" {
		os.Exit(code)
	}
	class := "crash"
	if hung {
		class = "hang"
		fmt.Fprintln(os.Stderr, "c09: a run with hibernation did not return within", limit, "; the trace holds that input only")
	} else {
		fmt.Fprintln(os.Stderr, "c09: the process died during a run with hibernation; the trace holds that input only")
	}
	line := "(case 0 " + lines[1] + " (obs (base (ok unknown)) (res (panic " + class + ")) (denies 0) (plansame 1) (plan0 ()) (plan ())" +
		" (events) (listings) (final ())))\n"
	if ioutil.WriteFile(out, []byte(line), 0644) != nil {
		os.Exit(code)
	}
	os.Exit(0)
}
