(* Lookups and iteration answer like the sorted association list: findGE / Get / Min / Max / Len /
   doNext / doPrev / FindLE; and node ids keep their items (iterator stability). *)
From Coq Require Import List ZArith Lia Bool.
Import ListNotations.
From Herc Require Import RBTree.Model RBTree.Spec RBTree.Arena RBTree.MapProofs.
Open Scope Z_scope.

(* ---------- findGE ---------- *)

Lemma s_find_ge_app_lt x a e b : x <= ekey e ->
  s_find_ge x (a ++ e :: b) = match s_find_ge x a with Some y => Some y | None => Some e end.
Proof.
  destruct e as [[i k] v]. cbn [ekey fst snd]. intros Hx.
  induction a as [|[[i0 k0] v0] a IH]; cbn [app s_find_ge].
  - destruct (Z.leb_spec x k); [auto|lia].
  - destruct (x <=? k0); auto.
Qed.

Lemma s_find_ge_none_lt x a k : all_lt a k -> k <= x -> s_find_ge x a = None.
Proof.
  induction a as [|[[i0 k0] v0] a IH]; cbn [s_find_ge]; auto. intros H Hx.
  apply all_lt_cons in H. cbn [ekey fst snd] in H. destruct H as [H1 H2].
  destruct (Z.leb_spec x k0); [lia|auto].
Qed.

Lemma s_find_ge_app_gt x a e b : all_lt a (ekey e) -> ekey e < x ->
  s_find_ge x (a ++ e :: b) = s_find_ge x b.
Proof.
  destruct e as [[i k] v]. cbn [ekey fst snd]. intros Ha Hx.
  induction a as [|[[i0 k0] v0] a IH]; cbn [app s_find_ge].
  - destruct (Z.leb_spec x k); [lia|auto].
  - apply all_lt_cons in Ha. cbn [ekey fst snd] in Ha. destruct Ha as [H1 H2].
    destruct (Z.leb_spec x k0); [lia|auto].
Qed.

Theorem find_ge_e_spec x : forall t, bst t -> find_ge_e x t = s_find_ge x (elems t).
Proof.
  induction t as [|c l IHl i k v r IHr]; intros Hb; [reflexivity|].
  destruct Hb as (Hl & Hr & Hlt & Hgt). cbn [find_ge_e elems].
  destruct (Z.ltb_spec x k).
  - rewrite (s_find_ge_app_lt x (elems l) (i, k, v)) by (cbn; lia). rewrite IHl by auto. reflexivity.
  - destruct (Z.ltb_spec k x).
    + rewrite (s_find_ge_app_gt x (elems l) (i, k, v)) by (cbn; auto). auto.
    + rewrite (s_find_ge_app_lt x (elems l) (i, k, v)) by (cbn; lia).
      rewrite (s_find_ge_none_lt x (elems l) k) by (auto; lia). reflexivity.
Qed.

Lemma s_find_ge_in x l e : s_find_ge x l = Some e -> In e l /\ x <= ekey e.
Proof.
  induction l as [|[[i k] v] r IH]; cbn [s_find_ge]; [discriminate|].
  destruct (Z.leb_spec x k).
  - intros He. inversion He; subst. split; [left; auto|cbn; auto].
  - intros He. destruct (IH He). split; [right|]; auto.
Qed.

Lemma s_get_find_ge x l : sorted l ->
  s_get x l = match s_find_ge x l with Some e => if ekey e =? x then Some (eval e) else None | None => None end.
Proof.
  induction l as [|[[i k] v] r IH]; cbn [s_get s_find_ge sorted]; auto.
  intros [G S]. cbn [ekey fst snd] in G.
  destruct (Z.eqb_spec k x).
  - subst. rewrite Z.leb_refl. cbn [ekey eval fst snd]. rewrite Z.eqb_refl. reflexivity.
  - destruct (Z.leb_spec x k).
    + cbn [ekey eval fst snd]. destruct (Z.eqb_spec k x); [lia|].
      (* all later keys are larger than k > x *)
      clear IH. induction r as [|[[i2 k2] v2] r IHr]; cbn [s_get]; auto.
      apply all_gt_cons in G. cbn [ekey fst snd] in G. destruct G as [G1 G2].
      destruct (Z.eqb_spec k2 x); [lia|]. apply IHr; auto. destruct S; auto.
    + apply IH; auto.
Qed.

Theorem get_spec x t : bst t -> get x t = s_get x (elems t).
Proof.
  intros Hb. unfold get. rewrite find_ge_e_spec by auto.
  rewrite s_get_find_ge by (apply bst_sorted; auto).
  destruct (s_find_ge x (elems t)) as [[[i k] v]|]; reflexivity.
Qed.

(* ---------- Min / Max / Len ---------- *)

Lemma s_max_cons e y b : s_max (e :: y :: b) = s_max (y :: b).
Proof. reflexivity. Qed.
Lemma s_max_some : forall b y, s_max (y :: b) <> None.
Proof.
  induction b as [|z b IH]; intros y; [discriminate|]. rewrite s_max_cons. apply IH.
Qed.

Lemma s_max_app a e b : s_max (a ++ e :: b) = match s_max b with Some y => Some y | None => Some e end.
Proof.
  induction a as [|x a IH].
  - cbn [app]. destruct b as [|y b]; [reflexivity|]. rewrite s_max_cons.
    destruct (s_max (y :: b)) eqn:E; auto. exfalso. eapply s_max_some; eauto.
  - cbn [app]. rewrite <- IH. destruct (a ++ e :: b) eqn:E; [destruct a; discriminate|].
    apply s_max_cons.
Qed.

Lemma leftmost_spec : forall t d, leftmost d t = match s_min (elems t) with Some e => eid e | None => d end.
Proof.
  induction t as [|c l IHl i k v r IHr]; intros d; [reflexivity|].
  cbn [leftmost elems]. rewrite IHl. destruct (elems l) as [|e a]; reflexivity.
Qed.

Lemma rightmost_spec : forall t d, rightmost d t = match s_max (elems t) with Some e => eid e | None => d end.
Proof.
  induction t as [|c l IHl i k v r IHr]; intros d; [reflexivity|].
  cbn [rightmost elems]. rewrite IHr, s_max_app. destruct (s_max (elems r)); reflexivity.
Qed.

Theorem min_id_spec t : min_id t = pos_fwd (s_min (elems t)).
Proof. unfold min_id. rewrite leftmost_spec. reflexivity. Qed.

Definition ids_ok (t : tree) : Prop := forall i, In i (ids t) -> 0 < i < neg_limit.

Lemma ids_eids t : ids t = eids (elems t).
Proof.
  induction t as [|c l IHl i k v r IHr]; [reflexivity|].
  cbn [ids elems]. unfold eids in *. rewrite map_app. cbn [map]. rewrite IHl, IHr. reflexivity.
Qed.

Lemma s_max_in l e : s_max l = Some e -> In e l.
Proof.
  induction l as [|x r IH]; [discriminate|]. cbn [s_max]. destruct r as [|y r2].
  - intros H. inversion H. left; auto.
  - intros H. right. auto.
Qed.

Theorem it_max_spec t : ids_ok t -> it_max t = pos_bwd (s_max (elems t)).
Proof.
  intros Hi. unfold it_max, max_id. rewrite rightmost_spec.
  destruct (s_max (elems t)) as [e|] eqn:E; [|reflexivity].
  cbn [pos_bwd]. assert (0 < eid e < neg_limit).
  { apply Hi. rewrite ids_eids. apply s_max_in in E. unfold eids. apply in_map; auto. }
  destruct (Z.eqb_spec (eid e) 0); [lia|reflexivity].
Qed.

Theorem tsize_spec t : tsize t = Z.of_nat (length (elems t)).
Proof.
  induction t as [|c l IHl i k v r IHr]; [reflexivity|].
  cbn [tsize elems]. rewrite app_length. cbn [length]. lia.
Qed.

(* ---------- items by node id ---------- *)

Lemma s_item_app x a b :
  s_item x (a ++ b) = match s_item x a with Some y => Some y | None => s_item x b end.
Proof.
  induction a as [|[[i k] v] a IH]; cbn [app s_item]; auto. destruct (x =? i); auto.
Qed.

Theorem item_of_spec x : forall t, item_of x t = s_item x (elems t).
Proof.
  induction t as [|c l IHl i k v r IHr]; [reflexivity|].
  cbn [item_of elems]. rewrite s_item_app. cbn [s_item]. rewrite IHl, IHr. reflexivity.
Qed.

(* iterator stability on the list level: entries other than the inserted / deleted one keep their id *)
Lemma s_item_insert m ni nk nv l : m <> ni -> s_item m (s_insert ni nk nv l) = s_item m l.
Proof.
  intros Hm. induction l as [|[[i k] v] r IH]; cbn [s_insert s_item].
  - destruct (Z.eqb_spec m ni); [lia|reflexivity].
  - destruct (nk <? k).
    + cbn [s_item]. destruct (Z.eqb_spec m ni); [lia|reflexivity].
    + destruct (k <? nk); cbn [s_item]; auto. rewrite IH. reflexivity.
Qed.

Lemma s_item_delete m x l : (forall v, s_item m l <> Some (x, v)) -> s_item m (s_delete x l) = s_item m l.
Proof.
  induction l as [|[[i k] v] r IH]; cbn [s_delete s_item]; auto. intros H.
  destruct (Z.eqb_spec k x).
  - subst. destruct (Z.eqb_spec m i); auto. exfalso. eapply H; eauto.
  - cbn [s_item]. destruct (Z.eqb_spec m i); auto.
Qed.

Theorem insert_stable ni nk nv t m : bst t -> m <> ni ->
  item_of m (fst (fst (insert ni nk nv t))) = item_of m t.
Proof.
  intros Hb Hm. rewrite !item_of_spec, insert_elems by auto. apply s_item_insert; auto.
Qed.

Theorem delete_stable x t t' m : bst t -> delete_key x t = DDone t' ->
  (forall v, item_of m t <> Some (x, v)) -> item_of m t' = item_of m t.
Proof.
  intros Hb E Hm. pose proof (delete_key_elems x t Hb) as H. rewrite E in H. destruct H as [_ H].
  rewrite !item_of_spec, H. apply s_item_delete. intros v. rewrite <- item_of_spec. auto.
Qed.

(* ---------- doNext / doPrev ---------- *)

Lemma s_next_app x a e b :
  s_next x (a ++ e :: b) =
  match s_next x a with
  | Some (Some y) => Some (Some y)
  | Some None => Some (Some e)
  | None => if x =? eid e then Some (s_min b) else s_next x b
  end.
Proof.
  destruct e as [[i k] v]. induction a as [|[[i0 k0] v0] a IH]; cbn [app s_next]; [reflexivity|].
  destruct (x =? i0); auto. destruct a; reflexivity.
Qed.

Theorem next_in_spec x : forall t up,
  next_in x t up = match s_next x (elems t) with
                   | Some o => Some (match o with Some e => eid e | None => up end)
                   | None => None
                   end.
Proof.
  induction t as [|c l IHl i k v r IHr]; intros up; [reflexivity|].
  cbn [next_in elems]. rewrite s_next_app, IHl. cbn [eid fst].
  destruct (s_next x (elems l)) as [[e|]|]; auto.
  destruct (x =? i).
  - rewrite leftmost_spec. reflexivity.
  - apply IHr.
Qed.

Lemma s_prev_aux_before x l before :
  s_prev_aux x l before = match s_prev_aux x l None with
                          | Some None => Some before
                          | o => o
                          end.
Proof.
  revert before. induction l as [|[[i k] v] r IH]; intros before; cbn [s_prev_aux]; auto.
  destruct (x =? i); auto. rewrite IH.
  destruct (s_prev_aux x r None) as [[y|]|] eqn:E; auto.
Qed.

Lemma s_prev_aux_app x a e b before :
  s_prev_aux x (a ++ e :: b) before =
  match s_prev_aux x a before with
  | Some o => Some o
  | None => if x =? eid e then Some (match s_max a with Some y => Some y | None => before end)
            else s_prev_aux x b (Some e)
  end.
Proof.
  destruct e as [[i k] v]. revert before.
  induction a as [|[[i0 k0] v0] a IH]; intros before; cbn [app s_prev_aux]; [reflexivity|].
  destruct (x =? i0); auto. rewrite IH.
  destruct (s_prev_aux x a (Some (i0, k0, v0))); auto.
  cbn [eid fst]. destruct (x =? i); auto.
  destruct a as [|y a]; [reflexivity|]. rewrite s_max_cons.
  destruct (s_max (y :: a)) eqn:E; auto. exfalso. eapply s_max_some; eauto.
Qed.

Theorem prev_in_spec x : forall t down,
  prev_in x t down = match s_prev x (elems t) with
                     | Some o => Some (match o with Some e => eid e | None => down end)
                     | None => None
                     end.
Proof.
  unfold s_prev.
  induction t as [|c l IHl i k v r IHr]; intros down; [reflexivity|].
  cbn [prev_in elems]. rewrite s_prev_aux_app, IHl. cbn [eid fst].
  destruct (s_prev_aux x (elems l) None) as [[e|]|]; auto.
  destruct (x =? i).
  - rewrite rightmost_spec. destruct (s_max (elems l)); reflexivity.
  - rewrite IHr, (s_prev_aux_before x (elems r) (Some (i, k, v))).
    destruct (s_prev_aux x (elems r) None) as [[e|]|]; reflexivity.
Qed.

(* ---------- FindLE = findGE then doPrev ---------- *)

Lemma s_find_le_ge x l : sorted l -> NoDup (eids l) -> forall before,
  s_find_le_aux x l before =
  match s_find_ge x l with
  | Some e => if ekey e =? x then Some e
              else match s_prev_aux (eid e) l before with Some o => o | None => None end
  | None => match s_max l with Some e => Some e | None => before end
  end.
Proof.
  induction l as [|[[i k] v] r IH]; intros Hs Hn before; [reflexivity|].
  destruct Hs as [G S]. cbn [ekey fst snd] in G.
  inversion Hn as [|? ? Hni Hn']; subst.
  cbn [s_find_le_aux s_find_ge].
  destruct (Z.leb_spec x k).
  - cbn [ekey eid fst snd]. destruct (Z.eqb_spec k x).
    + subst. rewrite Z.leb_refl.
      destruct r as [|[[i2 k2] v2] r2]; [reflexivity|]. cbn [s_find_le_aux].
      apply all_gt_cons in G. cbn [ekey fst snd] in G. destruct (Z.leb_spec k2 x); [lia|reflexivity].
    + destruct (Z.leb_spec k x); [lia|]. cbn [s_prev_aux]. rewrite Z.eqb_refl. reflexivity.
  - destruct (Z.leb_spec k x); [|lia].
    rewrite IH by auto.
    destruct (s_find_ge x r) as [e|] eqn:E.
    + destruct (ekey e =? x); auto. cbn [s_prev_aux].
      apply s_find_ge_in in E. destruct E as [E _].
      destruct (Z.eqb_spec (eid e) i) as [Heq|]; auto.
      exfalso. apply Hni. cbn [eids map eid fst]. rewrite <- Heq. apply in_map; auto.
    + destruct r as [|y r2]; [reflexivity|]. rewrite s_max_cons.
      destruct (s_max (y :: r2)) eqn:E2; auto. exfalso. eapply s_max_some; eauto.
Qed.

Theorem it_find_ge_spec x t : bst t -> it_find_ge x t = pos_fwd (s_find_ge x (elems t)).
Proof.
  intros Hb. unfold it_find_ge, find_ge. rewrite find_ge_e_spec by auto.
  destruct (s_find_ge x (elems t)) as [[[i k] v]|]; reflexivity.
Qed.

Theorem it_find_le_spec x t : bst t -> NoDup (ids t) -> ids_ok t ->
  it_find_le x t = Some (pos_bwd (s_find_le x (elems t))).
Proof.
  intros Hb Hn Hi. unfold it_find_le, find_ge, s_find_le. rewrite find_ge_e_spec by auto.
  rewrite (s_find_le_ge x (elems t)) by (try apply bst_sorted; auto; rewrite <- ids_eids; auto).
  destruct (s_find_ge x (elems t)) as [[[i k] v]|] eqn:E.
  - cbn [ekey eid fst snd]. destruct (k =? x); [reflexivity|].
    rewrite prev_in_spec. unfold s_prev. destruct (s_prev_aux i (elems t) None) as [[e|]|] eqn:E2; auto.
    exfalso. (* the node found by findGE is an entry, so it has a position *)
    apply s_find_ge_in in E. destruct E as [E _]. clear -E E2.
    revert E2. generalize (@None (Z * Z * Z)). induction (elems t) as [|[[i0 k0] v0] r IH]; [destruct E|].
    intros b. cbn [s_prev_aux]. destruct (Z.eqb_spec i i0); [discriminate|].
    destruct E as [E|E]; [inversion E; lia|]. apply IH; auto.
  - rewrite it_max_spec by auto. destruct (s_max (elems t)); reflexivity.
Qed.

(* ---------- walking the whole tree with Next / Prev ---------- *)

Fixpoint walk_fwd (fuel : nat) (it : Z) (t : tree) : list Z :=
  match fuel with
  | O => []
  | S f => if it =? limit then []
           else it :: match next_in it t limit with Some n => walk_fwd f n t | None => [] end
  end.

Fixpoint walk_bwd (fuel : nat) (it : Z) (t : tree) : list Z :=
  match fuel with
  | O => []
  | S f => if it =? neg_limit then []
           else it :: match prev_in it t neg_limit with Some n => walk_bwd f n t | None => [] end
  end.

Lemma s_next_at : forall a e b, ~ In (eid e) (eids a) -> s_next (eid e) (a ++ e :: b) = Some (s_min b).
Proof.
  induction a as [|[[i k] v] a IH]; intros [[j kj] vj] b Hn; cbn [app s_next eid fst] in *.
  - rewrite Z.eqb_refl. reflexivity.
  - cbn [eids map eid fst In] in Hn. destruct (Z.eqb_spec j i); [exfalso; apply Hn; auto|].
    apply (IH (j, kj, vj)). intros Hc. apply Hn. auto.
Qed.

Lemma s_prev_at : forall a e b before, ~ In (eid e) (eids a) ->
  s_prev_aux (eid e) (a ++ e :: b) before = Some (match s_max a with Some y => Some y | None => before end).
Proof.
  induction a as [|[[i k] v] a IH]; intros [[j kj] vj] b before Hn; cbn [app s_prev_aux eid fst] in *.
  - rewrite Z.eqb_refl. reflexivity.
  - cbn [eids map eid fst In] in Hn. destruct (Z.eqb_spec j i); [exfalso; apply Hn; auto|].
    rewrite (IH (j, kj, vj)) by (intros Hc; apply Hn; auto).
    destruct a as [|y a]; [reflexivity|]. rewrite s_max_cons.
    destruct (s_max (y :: a)) eqn:E; auto. exfalso. eapply s_max_some; eauto.
Qed.

(* Min, Next, Next, ... visits the nodes in the order of the sorted list and ends at Limit *)
Theorem walk_fwd_spec t : NoDup (ids t) -> ids_ok t ->
  walk_fwd (S (length (elems t))) (min_id t) t = ids t.
Proof.
  intros Hn Hok. rewrite ids_eids in *. rewrite min_id_spec.
  assert (G : forall b a, elems t = a ++ b ->
            walk_fwd (S (length b)) (pos_fwd (s_min b)) t = eids b).
  { induction b as [|e b IH]; intros a Ha; [reflexivity|].
    cbn [length s_min pos_fwd]. remember (S (length b)) as f. cbn [walk_fwd eids map].
    assert (In (eid e) (eids (elems t))) as Hin
      by (rewrite Ha; unfold eids; rewrite map_app; apply in_or_app; right; left; reflexivity).
    rewrite <- ids_eids in Hin. specialize (Hok _ Hin).
    destruct (Z.eqb_spec (eid e) limit); [unfold limit in *; lia|].
    rewrite next_in_spec, Ha, s_next_at.
    - f_equal. subst f. apply (IH (a ++ [e])). rewrite <- app_assoc. exact Ha.
    - rewrite Ha in Hn. unfold eids in Hn. rewrite map_app in Hn. cbn [map] in Hn.
      apply NoDup_remove_2 in Hn. intros Hc. apply Hn. apply in_or_app; auto. }
  apply (G (elems t) []). reflexivity.
Qed.

(* Max, Prev, Prev, ... visits them in reverse order and ends at NegativeLimit *)
Theorem walk_bwd_spec t : NoDup (ids t) -> ids_ok t ->
  walk_bwd (S (length (elems t))) (it_max t) t = rev (ids t).
Proof.
  intros Hn Hok. rewrite it_max_spec by auto. rewrite ids_eids in *.
  assert (G : forall a b, elems t = a ++ b ->
            walk_bwd (S (length a)) (pos_bwd (s_max a)) t = rev (eids a)).
  { intros a. induction a as [|e a IH] using rev_ind; intros b Ha; [reflexivity|].
    rewrite app_length. cbn [length]. replace (length a + 1)%nat with (S (length a)) by lia.
    remember (S (length a)) as f. rewrite s_max_app. cbn [s_max pos_bwd walk_bwd].
    unfold eids. rewrite map_app, rev_app_distr. cbn [map rev app].
    assert (In (eid e) (eids (elems t))) as Hin
      by (rewrite Ha; unfold eids; rewrite !map_app; apply in_or_app; left; apply in_or_app; right; left; reflexivity).
    rewrite <- ids_eids in Hin. specialize (Hok _ Hin).
    destruct (Z.eqb_spec (eid e) neg_limit); [lia|].
    rewrite <- app_assoc in Ha. cbn [app] in Ha.
    rewrite prev_in_spec. unfold s_prev. rewrite Ha, s_prev_at.
    - f_equal. subst f.
      replace (match match s_max a with Some y => Some y | None => None end with
               | Some e0 => eid e0 | None => neg_limit end) with (pos_bwd (s_max a))
        by (destruct (s_max a); reflexivity).
      apply (IH (e :: b)). exact Ha.
    - rewrite Ha in Hn. unfold eids in Hn. rewrite map_app in Hn. cbn [map] in Hn.
      apply NoDup_remove_2 in Hn. intros Hc. apply Hn. apply in_or_app; auto. }
  specialize (G (elems t) []). rewrite app_nil_r in G. apply G. reflexivity.
Qed.
