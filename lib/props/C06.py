CONFIG = dict(
        level='proof',
        streams=[dict(harness='c06', driver='c06', shrink_field='ops')],
        rule='scripts over 1-5 real rbtree.Allocators with up to 12 real RBTrees and two raw owners per allocator',
        exhaustive_note='',
        assumptions=[],
        trusted_base=[],
    )
