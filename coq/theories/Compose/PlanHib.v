(* Composition C04 -> C09, plan side.

   C09 (Hibernation/Model.v) assumes [lifecycle_ok_h p = true] of the plan Run executes, in its own plan
   syntax.  C04 (Plan/) proves [lifecycle_ok] and [nothing_hibernated] of every output of the model of
   insertHibernateBoot ([C04_hib]) and of every plan its validator accepts ([C04_checker_sound]).
   This file translates the plan syntax of C04 into the one of C09 ([fwd]) and proves

       lifecycle_ok p -> nothing_hibernated (run init p) -> lifecycle_ok_h (fwd_plan p) = true,
       erase_hb (fwd_plan p) = fwd_plan (erase_hb p),

   hence for p = insert_hb p0 d with p0 lifecycle-sound and free of hibernate/boot:
       lifecycle_ok_h (fwd_plan (insert_hb p0 d)) = true  and  erase_hb (fwd_plan (insert_hb p0 d)) = fwd_plan p0.

   [fwd] reads Items[0] of an action without items as branch 0 and a commit action without commit as
   commit 0; such actions are excluded by [wf_action], which [lifecycle_ok] contains. *)
From Coq Require Import List NArith ZArith Bool Arith Lia.
From Herc Require Import Hibernation.Model Hibernation.Tables.
From Herc Require Plan.Syntax Plan.Exec Plan.Lifecycle Plan.ExecProofs Plan.CheckerLemmas
  Plan.LifecycleProofs Plan.HibernateProofs Plan.Hibernate Plan.GC Plan.GCProofs.
Import ListNotations.
Open Scope Z_scope.

Module PS := Herc.Plan.Syntax.
Module PE := Herc.Plan.Exec.
Module PL := Herc.Plan.Lifecycle.
Module PEP := Herc.Plan.ExecProofs.
Module PCL := Herc.Plan.CheckerLemmas.
Module PLP := Herc.Plan.LifecycleProofs.
Module PHP := Herc.Plan.HibernateProofs.
Module PH := Herc.Plan.Hibernate.

(* ------------------------------------------------------------------------------------------ *)
(* the translation *)

Definition fwd (a : PS.action) : action :=
  let b := hd 0 (PS.items a) in
  let r := tl (PS.items a) in
  match PS.kind a with
  | PS.KCommit => ACommit b (match PS.commit a with Some c => N.of_nat c | None => 0%N end)
  | PS.KFork => AFork b r
  | PS.KMerge => AMerge b r
  | PS.KEmerge => AEmerge b
  | PS.KDelete => ADelete b
  | PS.KHibernate => AHibernate b r
  | PS.KBoot => ABoot b r
  end.
Definition fwd_plan (p : list PS.action) : list action := map fwd p.

Lemma fwd_hb a : is_hb (fwd a) = PS.is_kind PS.KHibernate a || PS.is_kind PS.KBoot a.
Proof. destruct a as [k co its]. destruct k; reflexivity. Qed.

Theorem erase_fwd p : erase_hb (fwd_plan p) = fwd_plan (PS.erase_hb p).
Proof.
  unfold erase_hb, fwd_plan, PS.erase_hb. induction p as [|a r IH]; [reflexivity|].
  cbn [map filter]. rewrite fwd_hb.
  destruct (PS.is_kind PS.KHibernate a || PS.is_kind PS.KBoot a); cbn [negb map]; rewrite IH; reflexivity.
Qed.

(* ------------------------------------------------------------------------------------------ *)
(* tables *)

Lemma in_keys_tset {V} (l : list (Z * V)) b v y :
  In y (map fst (tset b v l)) <-> y = b \/ In y (map fst l).
Proof.
  split.
  - intro H. destruct (in_keys_tget _ _ H) as [w Hw]. rewrite tget_tset in Hw.
    destruct (Z.eqb b y) eqn:E; [left; symmetry; apply Z.eqb_eq; exact E|].
    right. eapply tget_in_keys. exact Hw.
  - intro H. assert (exists w, tget y (tset b v l) = Some w) as [w Hw].
    { rewrite tget_tset. destruct (Z.eqb b y) eqn:E; [eauto|].
      destruct H as [->|H]; [rewrite Z.eqb_refl in E; discriminate|]. exact (in_keys_tget _ _ H). }
    eapply tget_in_keys. exact Hw.
Qed.

Lemma nodup_keys_tset {V} : forall (l : list (Z * V)) b v, NoDup (map fst l) -> NoDup (map fst (tset b v l)).
Proof.
  induction l as [|[x w] l IH]; intros b v ND; cbn [tset].
  - cbn. constructor; [intros []|constructor].
  - cbn [map fst] in ND. inversion ND as [|? ? Hx ND']; subst.
    destruct (Z.eqb x b) eqn:E.
    + apply Z.eqb_eq in E. subst x. cbn [map fst]. constructor; assumption.
    + cbn [map fst]. constructor; [|apply IH; exact ND'].
      intro H. apply in_keys_tset in H. destruct H as [->|H]; [rewrite Z.eqb_refl in E; discriminate|contradiction].
Qed.

Lemma nodup_keys_tdel {V} (l : list (Z * V)) b : NoDup (map fst l) -> NoDup (map fst (tdel b l)).
Proof. intro ND. rewrite keys_tdel. unfold kdel. apply NoDup_filter. exact ND. Qed.

Lemma nodup_keys_tset_all {V} : forall (upd l : list (Z * V)),
  NoDup (map fst l) -> NoDup (map fst (tset_all l upd)).
Proof.
  induction upd as [|[b v] r IH]; intros l ND; [exact ND|]. cbn [tset_all]. apply IH. apply nodup_keys_tset. exact ND.
Qed.

Lemma tget_tset_all_const {V} (v : V) : forall ns l b',
  tget b' (tset_all l (map (fun n => (n, v)) ns)) = if PEP.memzb b' ns then Some v else tget b' l.
Proof.
  unfold PEP.memzb. induction ns as [|n r IH]; intros l b'; [reflexivity|].
  cbn [map tset_all existsb]. rewrite IH, tget_tset, (Z.eqb_sym b' n).
  destruct (existsb (Z.eqb b') r); [rewrite orb_true_r; reflexivity|]. rewrite orb_false_r. reflexivity.
Qed.

Lemma nodup_in_tget {V} : forall (l : list (Z * V)) b v, NoDup (map fst l) -> In (b, v) l -> tget b l = Some v.
Proof.
  induction l as [|[x w] l IH]; intros b v ND Hin; [destruct Hin|].
  cbn [map fst] in ND. inversion ND as [|? ? Hx ND']; subst. cbn [tget].
  destruct Hin as [E|Hin].
  - injection E as -> ->. rewrite Z.eqb_refl. reflexivity.
  - destruct (Z.eqb x b) eqn:E; [|exact (IH b v ND' Hin)].
    exfalso. apply Z.eqb_eq in E. subst x. apply Hx. apply (in_map fst) in Hin. exact Hin.
Qed.

Lemma nodupb_NoDup l : NoDup l -> nodupb l = true.
Proof.
  induction 1 as [|x l Hx _ IH]; [reflexivity|]. cbn [nodupb]. rewrite IH, andb_true_r. apply negb_true_iff.
  destruct (existsb (Z.eqb x) l) eqn:E; [|reflexivity].
  exfalso. apply Hx. apply existsb_exists in E. destruct E as [y [Hy Ey]]. apply Z.eqb_eq in Ey. subst. exact Hy.
Qed.

(* ------------------------------------------------------------------------------------------ *)
(* the lifecycle of C04 implies the lifecycle predicate of C09 *)

Definition st_of (l : PE.life) : option bool :=
  match l with PE.Live _ => Some false | PE.Hibernated _ => Some true | _ => None end.

(* [stt] is the status table of C09's predicate, [s] the state of C04's abstract executor *)
Definition rel (s : list (Z * PE.life)) (stt : list (Z * bool)) : Prop :=
  forall b, tget b stt = st_of (PE.get s b).

Lemma st_of_upd f l : st_of (PE.upd f l) = st_of l.
Proof. destruct l; reflexivity. Qed.

Lemma rel_live s stt b : rel s stt -> PE.awake s b -> live stt b = true.
Proof. intros R [x Hx]. unfold live. rewrite (R b), Hx. reflexivity. Qed.
Lemma rel_asleep s stt b : rel s stt -> PE.hibernated s b -> asleep stt b = true.
Proof. intros R [x Hx]. unfold asleep. rewrite (R b), Hx. reflexivity. Qed.
Lemma rel_absent s stt b : rel s stt -> PE.get s b = PE.Absent -> absent stt b = true.
Proof. intros R Hx. unfold absent. rewrite (R b), Hx. reflexivity. Qed.

Lemma forallb_of {A} (f : A -> bool) (P : A -> Prop) l :
  (forall x, P x -> f x = true) -> (forall x, In x l -> P x) -> forallb f l = true.
Proof. intros Hf Hl. apply forallb_forall. intros x Hx. apply Hf, Hl, Hx. Qed.

Lemma step_sim s stt a r :
  rel s stt -> NoDup (map fst stt) -> PL.step_ok s a ->
  (forall stt', rel (PE.step s a) stt' -> NoDup (map fst stt') -> lifecycle stt' r = true) ->
  lifecycle stt (fwd a :: r) = true.
Proof.
  intros R ND [W [NDi [U [C B]]]] K.
  destruct a as [k co its]. unfold PS.wf_action in W. cbn [PS.kind PS.commit PS.items] in *.
  destruct k; unfold fwd; cbn [PS.kind PS.commit PS.items lifecycle].
  - (* commit *)
    destruct W as [c [b [-> ->]]]. cbn [hd].
    rewrite (rel_live s stt b R (U b (or_introl eq_refl))). cbn [andb].
    apply K; [|exact ND]. intro b'. rewrite (R b').
    change {| PS.kind := PS.KCommit; PS.commit := Some c; PS.items := [b] |} with (PS.commit_on c b).
    rewrite PEP.get_step_commit. destruct (Z.eqb b b') eqn:E; [|reflexivity].
    apply Z.eqb_eq in E. subst b'. rewrite st_of_upd. reflexivity.
  - (* fork *)
    destruct W as [b [t [ts ->]]]. cbn [hd tl].
    assert (Aw : PE.awake s b) by (apply U; left; reflexivity).
    rewrite (rel_live s stt b R Aw). inversion NDi as [|? ? _ NDn]; subst.
    rewrite (nodupb_NoDup _ NDn).
    rewrite (forallb_of (absent stt) (fun x => PE.get s x = PE.Absent) (t :: ts)
               (fun x Hx => rel_absent s stt x R Hx) C).
    cbn [andb]. apply K; [|apply nodup_keys_tset_all; exact ND].
    intro b'. rewrite tget_tset_all_const. unfold PE.step. cbn [PS.kind PS.items].
    rewrite (PEP.get_fold_set (fun _ => PE.get s b)).
    destruct (PEP.memzb b' (t :: ts)); [|apply R]. destruct Aw as [x ->]. reflexivity.
  - (* merge *)
    destruct W as [b1 [b2 [bs ->]]]. cbn [hd tl].
    rewrite (nodupb_NoDup _ NDi).
    rewrite (forallb_of (live stt) (PE.awake s) (b1 :: b2 :: bs) (fun x Hx => rel_live s stt x R Hx) U).
    cbn [andb]. apply K; [|exact ND]. intro b'. rewrite (R b').
    rewrite (PEP.get_step_merge s (PS.mkA PS.KMerge co (b1 :: b2 :: bs)) b' eq_refl). cbn [PS.items].
    destruct (PEP.memzb b' (b1 :: b2 :: bs)); [rewrite st_of_upd|]; reflexivity.
  - (* emerge *)
    destruct W as [b ->]. cbn [hd].
    rewrite (rel_absent s stt b R (C b (or_introl eq_refl))). cbn [andb].
    apply K; [|apply nodup_keys_tset; exact ND]. intro b'. rewrite tget_tset.
    unfold PE.step. cbn [PS.kind PS.items]. rewrite PEP.get_set.
    destruct (Z.eqb b b'); [reflexivity|apply R].
  - (* delete *)
    destruct W as [b ->]. cbn [hd].
    rewrite (rel_live s stt b R (U b (or_introl eq_refl))). cbn [andb].
    apply K; [|apply nodup_keys_tdel; exact ND]. intro b'. rewrite tget_tdel.
    unfold PE.step. cbn [PS.kind PS.items]. rewrite PEP.get_set.
    destruct (Z.eqb b b'); [reflexivity|apply R].
  - (* hibernate *)
    destruct its as [|b bs]; [exfalso; apply W; reflexivity|]. cbn [hd tl].
    rewrite (nodupb_NoDup _ NDi).
    rewrite (forallb_of (live stt) (PE.awake s) (b :: bs) (fun x Hx => rel_live s stt x R Hx) U).
    cbn [andb]. apply K; [|apply nodup_keys_tset_all; exact ND].
    intro b'. rewrite tget_tset_all_const. unfold PE.step. cbn [PS.kind PS.items].
    rewrite PEP.get_fold_hibernate. destruct (PEP.memzb b' (b :: bs)) eqn:E; [|apply R].
    apply PEP.memzb_In in E. destruct (U b' E) as [x ->]. reflexivity.
  - (* boot *)
    destruct its as [|b bs]; [exfalso; apply W; reflexivity|]. cbn [hd tl].
    rewrite (nodupb_NoDup _ NDi).
    rewrite (forallb_of (asleep stt) (PE.hibernated s) (b :: bs) (fun x Hx => rel_asleep s stt x R Hx) B).
    cbn [andb]. apply K; [|apply nodup_keys_tset_all; exact ND].
    intro b'. rewrite tget_tset_all_const. unfold PE.step. cbn [PS.kind PS.items].
    rewrite PEP.get_fold_boot. destruct (PEP.memzb b' (b :: bs)) eqn:E; [|apply R].
    apply PEP.memzb_In in E. destruct (B b' E) as [x ->]. reflexivity.
Qed.

Lemma lifecycle_sim : forall p s stt,
  rel s stt -> NoDup (map fst stt) -> PL.lifecycle_from s p -> PL.nothing_hibernated (PE.run s p) ->
  lifecycle stt (fwd_plan p) = true.
Proof.
  induction p as [|a r IH]; intros s stt R ND L NH.
  - cbn [fwd_plan map lifecycle]. apply forallb_forall. intros [b v] Hin. cbn [snd].
    destruct v; [|reflexivity]. exfalso.
    pose proof (nodup_in_tget stt b true ND Hin) as Hg. rewrite (R b) in Hg.
    apply (NH b). unfold PE.hibernated. cbn [PE.run fold_left].
    destruct (PE.get s b) as [|x|x|]; try discriminate Hg. exists x. reflexivity.
  - destruct (PHP.lifecycle_tail _ _ _ L) as [SO L']. cbn [fwd_plan map].
    apply (step_sim s stt a (fwd_plan r) R ND SO). intros stt' R' ND'.
    apply (IH (PE.step s a) stt' R' ND' L'). rewrite <- PEP.run_cons. exact NH.
Qed.

Theorem lifecycle_fwd p :
  PL.lifecycle_ok p -> PL.nothing_hibernated (PE.run PE.init p) -> lifecycle_ok_h (fwd_plan p) = true.
Proof.
  intros L NH. apply (lifecycle_sim p PE.init []); [intro b; reflexivity|constructor|exact L|exact NH].
Qed.

(* ------------------------------------------------------------------------------------------ *)
(* the output of insertHibernateBoot (C04_hib) *)

Theorem insert_hb_fwd (p0 : list PS.action) (d : Z) :
  PL.lifecycle_ok p0 -> Forall PHP.hb_kind p0 ->
  lifecycle_ok_h (fwd_plan (PH.insert_hb p0 d)) = true /\
  erase_hb (fwd_plan (PH.insert_hb p0 d)) = fwd_plan p0.
Proof.
  intros L F. destruct (PHP.hib_sound p0 d L F) as [L' [NH E]].
  split; [exact (lifecycle_fwd _ L' NH)|]. rewrite erase_fwd, E. reflexivity.
Qed.

(* every plan the validator of C04 accepts *)
Theorem c04_ok_fwd g p : PL.c04_ok g p = true -> lifecycle_ok_h (fwd_plan p) = true.
Proof.
  intro H. destruct (PLP.c04_checker_sound g p H) as [L [NH _]]. exact (lifecycle_fwd p L NH).
Qed.

(* the two planner stages composed (C04_gc, C04_hib): collectGarbage, then insertHibernateBoot *)
Theorem gc_then_hib_fwd (p : list PS.action) (d : Z) : Herc.Plan.GCProofs.pre_ok p ->
  exists p', Herc.Plan.GC.collect_garbage p = Some p' /\
    lifecycle_ok_h (fwd_plan (PH.insert_hb p' d)) = true /\
    erase_hb (fwd_plan (PH.insert_hb p' d)) = fwd_plan p' /\
    PS.erase_deletes p' = p.
Proof.
  intro H. destruct (Herc.Plan.GCProofs.gc_sound p H) as [p' [E [L R]]].
  exists p'. split; [exact E|].
  assert (F : Forall PHP.hb_kind p').
  { apply Forall_forall. intros a Ha. destruct (PS.is_kind PS.KDelete a) eqn:Kd.
    - apply PS.kind_eqb_eq in Kd. unfold PHP.hb_kind. rewrite Kd. split; discriminate.
    - assert (Hin : In a p) by (rewrite <- R; apply filter_In; split; [exact Ha|rewrite Kd; reflexivity]).
      destruct H as [_ G]. rewrite Forall_forall in G. destruct (G a Hin) as [G' _].
      unfold Herc.Plan.GCProofs.gc_kind in G'. unfold PHP.hb_kind.
      destruct G' as [G'|[G'|[G'|G']]]; rewrite G'; split; discriminate. }
  destruct (insert_hb_fwd p' d L F) as [H1 H2]. split; [exact H1|]. split; [exact H2|exact R].
Qed.
