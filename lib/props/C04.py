def _extra(stats, cov):
    return dict(programs=stats.get('full_plans_validated', 0), disagreements_checked=stats.get('gc_calls', 0) + stats.get('hb_calls', 0))


CONFIG = dict(
    level='proof',
    streams=[dict(harness='c04', driver='c04', shrink_field='ops')],
    rule='two kinds of cases. fn*: collectGarbage and insertHibernateBoot(d) called directly on a generated plan (fnwf: random '
         'plans with a sound lifecycle, fndel: the same with deletes, fnarb: arbitrary action lists incl. empty item lists, '
         'negative ids, repeated items; d in 0..8, sometimes 9..38 or negative) and compared with the extracted models GC.v / '
         'Hibernate.v (deletes that follow one action compared as a set), the outputs judged by the extracted lifecycle checker '
         'inside the domain of C04_gc / C04_hib. graph: the stages generatePlan -> collectGarbage -> insertHibernateBoot(d), '
         'd = 0..8, called one by one on a commit graph (compared with the models stage by stage) and the composed '
         'prepareRunPlan(commits, d) on the reversed slice; every full plan validated by c04_ok. Graph generators as in C02: all '
         'DAGs on <=5 commits x all hash orders (one case per graph and distinct generatePlan output), thorough: connected 6-commit DAGs x every '
         '24th order, random histories to 14 / 40 commits. Non-trivial = a fork or merge and >=4 actions (fn*) / a commit with two '
         'distinct parents (graph); distinct = distinct input fields.',
    exhaustive_note='all DAGs on <=5 commits x all hash orders x distances 0..8 (cases de-duplicated by generatePlan output)',
    assumptions=['hibernation distance >= 0 in the theorems (prepareRunPlan calls insertHibernateBoot only for d > 0)',
                 'collectGarbage on branch ids < 0 depends on the unstable sort (an action can be emitted twice): outside the '
                 'domain of C04_gc (pre_ok requires ids >= rootBranchIndex) and not compared',
                 'the plan of generatePlan is validated per plan (pre_okb), as in C02'],
    trusted_base=['hand-written Gallina models coq/theories/Plan/GC.v and Hibernate.v of collectGarbage / insertHibernateBoot, '
                  'tied to the code by the replay of every harness case',
                  'the abstract executor coq/theories/Plan/Exec.v as the meaning of live / hibernated / disposed (hand-written '
                  'from Pipeline.Run; Run itself is not executed by this check)'],
    level_text='proof for the garbage-collection and hibernation stages (all plans, all distances) over line-by-line Gallina '
               'models tied to the Go functions by replay; the plan generator stage is validated per plan by a proved-sound checker',
    level_note='Proved in Coq (no axioms), for all plans and all distances: C04_gc / C04_gc_any_order (collectGarbage model: sound lifecycle, '
               'erasing deletes gives the input, for every outcome of the unstable sort), C04_hib (insertHibernateBoot model: booted before the '
               'next use, never hibernated twice, never disposed while hibernated, nothing left hibernated, erasing gives the input), '
               'C04_checker_sound (the validator run on every full plan of the real planner implies the lifecycle, merge and master-branch '
               'clauses). Modelled, not verified: the two Go functions (Gallina models GC.v / Hibernate.v tied to them by replay, zero '
               'mismatches required) and Pipeline.Run (Exec.v is its hand-written abstraction). Not proved: that generatePlan always emits a '
               'plan satisfying pre_ok / c04_ok - validated per plan (exhaustive for <=5 commits x all hash orders x distances 0..8).',
    technique='machine-checked proof in Coq over Gallina models of collectGarbage/insertHibernateBoot + model/implementation '
              'correspondence replay + Coq-verified lifecycle checker on the plans of the real planner',
    extra_coverage=_extra,
    search_seconds=60,
)
