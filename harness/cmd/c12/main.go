// Harness for C12: (1) runs the REAL pipeline (hercules.NewPipeline, DeployItem, Initialize, Run) with
// leaves.DevsAnalysis and leaves.CommitsAnalysis on synthetic repositories and records, with a recording
// pipeline item, everything every replay step was given by the upstream items; (2) drives
// LinesStatsCalculator.Consume directly with fabricated tree changes, blobs and diff scripts.
//
// Case line:
//
//	(case n (kind K) (nt b) (mode pipe|direct) (cec b) (ren b) (items ...) (obs ...))
//
// pipe:   items = (c id (p parent-ids...) author tick (f name (bytes...))...)   declared commits
// direct: items = (ins name n fin) | (del name n fin) | (mod name (e n)(i n)(d n)...)   with a field (merge b)
package main

import (
	"flag"
	"fmt"
	"io/ioutil"
	"log"
	"sort"
	"strings"
	"time"
	"unicode/utf8"

	"github.com/sergi/go-diff/diffmatchpatch"
	"gopkg.in/src-d/go-git.v4/plumbing"
	"gopkg.in/src-d/go-git.v4/plumbing/filemode"
	"gopkg.in/src-d/go-git.v4/plumbing/object"
	"gopkg.in/src-d/go-git.v4/utils/merkletrie"
	hercules "gopkg.in/src-d/hercules.v10"
	"gopkg.in/src-d/hercules.v10/leaves"
	"gopkg.in/src-d/hercules.v10/verifapi"
	api "gopkg.in/src-d/hercules.v10/verifapi/c12"

	. "verifharness/lib"
	"verifharness/synth"

	git "gopkg.in/src-d/go-git.v4"
)

// ---------------------------------------------------------------------------------------------
// declared input of a pipeline case

type fileIn struct {
	Name string
	Data []byte
}

type commitIn struct {
	ID      int
	Parents []int
	Author  int
	Tick    int
	Files   []fileIn
}

func (c commitIn) sx() Sx {
	items := []Sx{A("c"), I(c.ID), T("p", Ints(c.Parents).List...), I(c.Author), I(c.Tick)}
	for _, f := range c.Files {
		items = append(items, T("f", A(f.Name), Bytes(f.Data)))
	}
	return L(items...)
}

func parseCommit(s Sx) commitIn {
	c := commitIn{ID: s.List[1].Int(), Author: s.List[3].Int(), Tick: s.List[4].Int()}
	for _, p := range s.List[2].Args() {
		c.Parents = append(c.Parents, p.Int())
	}
	for _, f := range s.List[5:] {
		var data []byte
		for _, b := range f.List[2].List {
			data = append(data, byte(b.Int()))
		}
		c.Files = append(c.Files, fileIn{f.List[1].Atom, data})
	}
	return c
}

// toSpecs resolves parent ids against the commits present before (a shrunk case may have lost some).
func toSpecs(cs []commitIn) []synth.CommitSpec {
	pos := map[int]int{}
	var specs []synth.CommitSpec
	for i, c := range cs {
		au := fmt.Sprintf("dev%d", c.Author)
		when := time.Unix(synth.BaseTime+int64(c.Tick)*86400+int64(i), 0)
		spec := synth.CommitSpec{AuthorName: au, AuthorEmail: au + "@x", AuthorWhen: when, Message: fmt.Sprintf("c%d", c.ID)}
		seen := map[int]bool{}
		for _, p := range c.Parents {
			if q, ok := pos[p]; ok && !seen[q] {
				seen[q] = true
				spec.Parents = append(spec.Parents, q)
			}
		}
		for _, f := range c.Files {
			spec.Files = append(spec.Files, synth.FileSpec{Path: f.Name, Data: f.Data})
		}
		specs = append(specs, spec)
		if _, dup := pos[c.ID]; !dup {
			pos[c.ID] = i
		}
	}
	return specs
}

var extOf = map[string]string{"a": "a.go", "b": "b.py", "c": "c", "d": "d.md"}

func rename(n string) string {
	if r, ok := extOf[n]; ok {
		return r
	}
	return n
}

func fromHist(h *synth.Hist) []commitIn {
	var cs []commitIn
	for c := 0; c < h.N; c++ {
		ci := commitIn{ID: c, Parents: append([]int{}, h.Parents[c]...), Author: h.Author[c], Tick: h.Tick[c]}
		for _, p := range h.Paths {
			if txt, ok := h.Content(c, p); ok {
				ci.Files = append(ci.Files, fileIn{rename(p), []byte(txt)})
			}
		}
		cs = append(cs, ci)
	}
	return cs
}

func fromLinear(steps []synth.LinearStep, authors func() int) []commitIn {
	var cs []commitIn
	for c, s := range steps {
		ci := commitIn{ID: c, Author: authors(), Tick: s.Tick}
		if c > 0 {
			ci.Parents = []int{c - 1}
		}
		var names []string
		for k := range s.Files {
			names = append(names, k)
		}
		sort.Strings(names)
		for _, k := range names {
			ci.Files = append(ci.Files, fileIn{rename(k), s.Files[k]})
		}
		cs = append(cs, ci)
	}
	return cs
}

// ---------------------------------------------------------------------------------------------
// tables of names / languages of one case

type table struct {
	idx   map[string]int
	names []string
}

func newTable() *table { return &table{idx: map[string]int{}} }
func (t *table) id(s string) int {
	if i, ok := t.idx[s]; ok {
		return i
	}
	t.idx[s] = len(t.names)
	t.names = append(t.names, s)
	return t.idx[s]
}
func atomOf(s string) string {
	if s == "" {
		return "_"
	}
	r := strings.NewReplacer(" ", "_", "(", "_", ")", "_", "\n", "_", "\t", "_", "\r", "_")
	return r.Replace(s)
}
func (t *table) sx(tag string) Sx {
	xs := make([]Sx, len(t.names))
	for i, n := range t.names {
		xs[i] = A(atomOf(n))
	}
	return T(tag, xs...)
}

// ---------------------------------------------------------------------------------------------
// the recording pipeline item

type recChange struct {
	kind  string // ins | del | mod
	name  string // To.Name (ins, mod) or From.Name (del)
	from  string
	lang  string
	lines int // ins/del: CountLines, -1 = binary
	old   int // mod: OldLinesOfCode / NewLinesOfCode as FileDiff reported them
	new   int
	hasFD bool
	diffs [][2]int // op (0 eq, 1 ins, 2 del, 3 other), rune count
}

type recStat struct {
	side    int // 1 = To entry, 0 = From entry, -1 = unknown entry
	name    string
	lang    string
	a, r, c int
}

type recStep struct {
	inst     int           // identity of the recorder instance (= branch of the run)
	prev     plumbing.Hash // the commit this instance consumed before
	hasPrev  bool
	hash     plumbing.Hash
	nparents int
	isMerge  bool
	index    int
	author   int
	tick     int
	changes  []recChange
	stats    []recStat
}

// recShared is the log all instances of the recorder write to, in execution order.
type recShared struct {
	steps []recStep
	next  int
}

// recorder is forked by copy: every branch of the run has its own instance, which knows its identity and
// the commit it consumed last (= the commit the next one is replayed on).  The executed replay sequence
// is therefore observed from inside the run, not recomputed with a second planner call.
type recorder struct {
	hercules.NoopMerger
	sh     *recShared
	id     int
	last   plumbing.Hash
	hasOne bool
}

func (r *recorder) Name() string       { return "VerifC12Recorder" }
func (r *recorder) Provides() []string { return []string{} }
func (r *recorder) Requires() []string {
	return []string{api.DependencyAuthor, api.DependencyTreeChanges, api.DependencyTick, api.DependencyLanguages,
		api.DependencyLineStats, api.DependencyFileDiff, api.DependencyBlobCache}
}
func (r *recorder) ListConfigurationOptions() []hercules.ConfigurationOption { return nil }
func (r *recorder) Configure(facts map[string]interface{}) error             { return nil }
func (r *recorder) Initialize(*git.Repository) error {
	r.sh.steps, r.sh.next, r.id, r.hasOne = nil, 1, 0, false
	return nil
}
func (r *recorder) Fork(n int) []hercules.PipelineItem {
	res := make([]hercules.PipelineItem, n)
	for i := range res {
		res[i] = &recorder{sh: r.sh, id: r.sh.next, last: r.last, hasOne: r.hasOne}
		r.sh.next++
	}
	return res
}

func opCode(t diffmatchpatch.Operation) int {
	switch t {
	case diffmatchpatch.DiffEqual:
		return 0
	case diffmatchpatch.DiffInsert:
		return 1
	case diffmatchpatch.DiffDelete:
		return 2
	}
	return 3
}

func (r *recorder) Consume(deps map[string]interface{}) (map[string]interface{}, error) {
	commit := deps[api.DependencyCommit].(*object.Commit)
	st := recStep{inst: r.id, prev: r.last, hasPrev: r.hasOne, hash: commit.Hash, nparents: commit.NumParents(), isMerge: deps[api.DependencyIsMerge].(bool),
		index: deps[api.DependencyIndex].(int), author: deps[api.DependencyAuthor].(int), tick: deps[api.DependencyTick].(int)}
	changes := deps[api.DependencyTreeChanges].(object.Changes)
	cache := deps[api.DependencyBlobCache].(map[plumbing.Hash]*api.CachedBlob)
	fds := deps[api.DependencyFileDiff].(map[string]api.FileDiffData)
	langs := deps[api.DependencyLanguages].(map[plumbing.Hash]string)
	stats := deps[api.DependencyLineStats].(map[object.ChangeEntry]api.LineStats)
	count := func(h plumbing.Hash) int {
		b := cache[h]
		if b == nil {
			return -2
		}
		n, err := b.CountLines()
		if err != nil {
			return -1
		}
		return n
	}
	type ek struct {
		side int
		name string
	}
	entries := map[object.ChangeEntry]ek{}
	for _, ch := range changes {
		action, err := ch.Action()
		if err != nil {
			return nil, err
		}
		switch action {
		case merkletrie.Insert:
			st.changes = append(st.changes, recChange{kind: "ins", name: ch.To.Name, lang: langs[ch.To.TreeEntry.Hash], lines: count(ch.To.TreeEntry.Hash)})
			entries[ch.To] = ek{1, ch.To.Name}
		case merkletrie.Delete:
			st.changes = append(st.changes, recChange{kind: "del", name: ch.From.Name, lang: langs[ch.From.TreeEntry.Hash], lines: count(ch.From.TreeEntry.Hash)})
			entries[ch.From] = ek{0, ch.From.Name}
		case merkletrie.Modify:
			rc := recChange{kind: "mod", name: ch.To.Name, from: ch.From.Name, lang: langs[ch.To.TreeEntry.Hash]}
			if fd, ok := fds[ch.To.Name]; ok {
				rc.hasFD, rc.old, rc.new = true, fd.OldLinesOfCode, fd.NewLinesOfCode
				for _, d := range fd.Diffs {
					rc.diffs = append(rc.diffs, [2]int{opCode(d.Type), utf8.RuneCountInString(d.Text)})
				}
			}
			st.changes = append(st.changes, rc)
			entries[ch.To] = ek{1, ch.To.Name}
		}
	}
	for e, s := range stats {
		k, ok := entries[e]
		if !ok {
			k = ek{-1, e.Name}
		}
		st.stats = append(st.stats, recStat{k.side, k.name, langs[e.TreeEntry.Hash], s.Added, s.Removed, s.Changed})
	}
	sort.Slice(st.stats, func(i, j int) bool {
		if st.stats[i].name != st.stats[j].name {
			return st.stats[i].name < st.stats[j].name
		}
		return st.stats[i].side < st.stats[j].side
	})
	r.sh.steps = append(r.sh.steps, st)
	r.last, r.hasOne = commit.Hash, true
	return map[string]interface{}{}, nil
}

// ---------------------------------------------------------------------------------------------
// ground truth from the declared contents

func splitLines(b []byte) []string {
	if len(b) == 0 {
		return nil
	}
	l := strings.SplitAfter(string(b), "\n")
	if l[len(l)-1] == "" {
		l = l[:len(l)-1]
	}
	return l
}

func isBinary(b []byte) bool {
	for _, x := range b {
		if x == 0 {
			return true
		}
	}
	return false
}

func lcs(a, b []string) int {
	prev := make([]int, len(b)+1)
	cur := make([]int, len(b)+1)
	for i := 1; i <= len(a); i++ {
		for j := 1; j <= len(b); j++ {
			if a[i-1] == b[j-1] {
				cur[j] = prev[j-1] + 1
			} else if prev[j] >= cur[j-1] {
				cur[j] = prev[j]
			} else {
				cur[j] = cur[j-1]
			}
		}
		prev, cur = cur, prev
	}
	return prev[len(b)]
}

func b2i(b bool) int {
	if b {
		return 1
	}
	return 0
}

// truthDiff lists the declared differences between two commits (parent < 0: the empty tree):
// (f name-id old oldbin new newbin ins del), absent = -1; ins/del = those of a minimal line diff.
func truthDiff(specs []synth.CommitSpec, parent, c int, names *table) []Sx {
	old := map[string][]byte{}
	if parent >= 0 {
		for _, f := range specs[parent].Files {
			old[f.Path] = f.Data
		}
	}
	cur := map[string][]byte{}
	for _, f := range specs[c].Files {
		cur[f.Path] = f.Data
	}
	all := map[string]bool{}
	for k := range old {
		all[k] = true
	}
	for k := range cur {
		all[k] = true
	}
	var keys []string
	for k := range all {
		keys = append(keys, k)
	}
	sort.Strings(keys)
	var res []Sx
	for _, k := range keys {
		o, oin := old[k]
		n, nin := cur[k]
		if oin && nin && string(o) == string(n) {
			continue
		}
		ol, nl, ins, del := -1, -1, -1, -1
		var la, lb []string
		if oin {
			la = splitLines(o)
			ol = len(la)
		}
		if nin {
			lb = splitLines(n)
			nl = len(lb)
		}
		if oin && nin {
			m := lcs(la, lb)
			ins, del = nl-m, ol-m
		}
		res = append(res, T("f", I(names.id(k)), I(ol), I(b2i(oin && isBinary(o))), I(nl), I(b2i(nin && isBinary(n))), I(ins), I(del)))
	}
	return res
}

// ---------------------------------------------------------------------------------------------
// one pipeline case

func runPipe(c *Config, kind string, cec, ren bool, cs []commitIn) {
	var items []Sx
	for _, ci := range cs {
		items = append(items, ci.sx())
	}
	head := []Sx{T("kind", A(kind)), T("nt", B(len(cs) >= 3)), T("mode", A("pipe")), T("cec", B(cec)), T("ren", B(ren)), T("items", items...)}
	specs := toSpecs(cs)
	if len(specs) == 0 {
		c.Emit(append(head, T("obs", T("empty")))...)
		return
	}
	repo, commits := synth.BuildRepo(specs)
	cidx := map[plumbing.Hash]int{}
	for i, cm := range commits {
		if _, dup := cidx[cm.Hash]; !dup {
			cidx[cm.Hash] = i
		}
	}
	names, langs := newTable(), newTable()
	langs.id("")

	var obs []Sx
	rec := &recorder{sh: &recShared{}}
	var devsRes leaves.DevsResult
	var commitsRes leaves.CommitsResult
	var itemNames []string
	var runErr error
	msg, panicked := Catch(func() {
		p := hercules.NewPipeline(repo)
		devs := p.DeployItem(&leaves.DevsAnalysis{}).(hercules.LeafPipelineItem)
		cst := p.DeployItem(&leaves.CommitsAnalysis{}).(hercules.LeafPipelineItem)
		p.DeployItem(rec)
		facts := map[string]interface{}{
			hercules.ConfigPipelineCommits:        commits,
			leaves.ConfigDevsConsiderEmptyCommits: cec,
		}
		if ren {
			// the command line default; without the fact the threshold stays 0 (everything big enough pairs up)
			facts[api.ConfigRenameAnalysisSimilarityThreshold] = 80
		}
		if runErr = p.Initialize(facts); runErr != nil {
			return
		}
		for _, it := range p.VerifItems() {
			itemNames = append(itemNames, it.Name())
		}
		var out map[hercules.LeafPipelineItem]interface{}
		out, runErr = p.Run(commits)
		if runErr != nil {
			return
		}
		devsRes = out[devs].(leaves.DevsResult)
		commitsRes = out[cst].(leaves.CommitsResult)
	})
	if panicked {
		_ = msg
		c.Emit(append(head, T("obs", T("panic")))...)
		return
	}
	if runErr != nil {
		c.Emit(append(head, T("obs", T("error")))...)
		return
	}

	// the plan of a separate planner call, for information only (the planner is not deterministic across calls)
	plan := verifapi.PrepareRunPlan(commits, 0)
	var planSx []Sx
	for _, a := range plan {
		switch a.Action {
		case verifapi.ActionCommit:
			planSx = append(planSx, T("c", I(cidx[a.Commit.Hash]), I(a.Items[0])))
		case verifapi.ActionFork:
			planSx = append(planSx, T("f", Ints(a.Items).List...))
		case verifapi.ActionMerge:
			planSx = append(planSx, T("m", Ints(a.Items).List...))
		case verifapi.ActionEmerge:
			planSx = append(planSx, T("e", Ints(a.Items).List...))
		case verifapi.ActionDelete:
			planSx = append(planSx, T("d", Ints(a.Items).List...))
		default:
			planSx = append(planSx, T("x", I(a.Action)))
		}
	}
	obs = append(obs, T("plan", planSx...))
	// declared truth of every executed replay step: the commit against the commit its branch held before
	var truth []Sx
	for _, st := range rec.sh.steps {
		par := -1
		if st.hasPrev {
			par = cidx[st.prev]
		}
		ci := cidx[st.hash]
		truth = append(truth, T("on", append([]Sx{I(ci), I(par)}, truthDiff(specs, par, ci, names)...)...))
	}
	obs = append(obs, T("truth", truth...))
	var pipeline []Sx
	for _, n := range itemNames {
		pipeline = append(pipeline, A(n))
	}
	obs = append(obs, T("pipeline", pipeline...))

	// the replay steps as the items saw them
	var steps []Sx
	for _, s := range rec.sh.steps {
		var chs []Sx
		for _, ch := range s.changes {
			chs = append(chs, changeSx(ch, names, langs))
		}
		var sts []Sx
		for _, x := range s.stats {
			sts = append(sts, T("k", I(x.side), I(names.id(x.name)), I(langs.id(x.lang)), I(x.a), I(x.r), I(x.c)))
		}
		steps = append(steps, T("s", I(cidx[s.hash]), I(s.nparents), B(s.isMerge), I(s.author), I(s.tick), I(s.index), T("ch", chs...), T("st", sts...), I(s.inst)))
	}
	obs = append(obs, T("steps", steps...))

	// DevsResult
	var tks []int
	for t := range devsRes.Ticks {
		tks = append(tks, t)
	}
	sort.Ints(tks)
	var devSx []Sx
	for _, t := range tks {
		var ds []int
		for d := range devsRes.Ticks[t] {
			ds = append(ds, d)
		}
		sort.Ints(ds)
		for _, d := range ds {
			dt := devsRes.Ticks[t][d]
			var ls []string
			for l := range dt.Languages {
				ls = append(ls, l)
			}
			sort.Strings(ls)
			var lsx []Sx
			for _, l := range ls {
				v := dt.Languages[l]
				lsx = append(lsx, T("l", I(langs.id(l)), I(v.Added), I(v.Removed), I(v.Changed)))
			}
			devSx = append(devSx, T("t", I(t), I(d), I(dt.Commits), I(dt.Added), I(dt.Removed), I(dt.Changed), T("langs", lsx...)))
		}
	}
	obs = append(obs, T("devs", devSx...))

	// CommitsResult
	var cSx []Sx
	for _, cm := range commitsRes.Commits {
		ci, ok := cidx[plumbing.NewHash(cm.Hash)]
		if !ok {
			ci = -1
		}
		fs := append([]leaves.FileStat{}, cm.Files...)
		sort.Slice(fs, func(i, j int) bool {
			if fs[i].Name != fs[j].Name {
				return fs[i].Name < fs[j].Name
			}
			return fs[i].Removed < fs[j].Removed
		})
		var fsx []Sx
		for _, f := range fs {
			fsx = append(fsx, T("fl", I(names.id(f.Name)), I(langs.id(f.Language)), I(f.Added), I(f.Removed), I(f.Changed)))
		}
		whenOK := ci >= 0 && cm.When == commits[ci].Author.When.Unix()
		cSx = append(cSx, T("c", I(ci), B(whenOK), I(cm.Author), T("files", fsx...)))
	}
	obs = append(obs, T("commits", cSx...))
	// author of every declared commit as the people dictionary numbers it
	obs = append(obs, names.sx("names"), langs.sx("langs"))
	c.Emit(append(head, T("obs", obs...))...)
}

func changeSx(ch recChange, names, langs *table) Sx {
	switch ch.kind {
	case "ins", "del":
		return T(ch.kind, I(names.id(ch.name)), I(langs.id(ch.lang)), I(ch.lines))
	}
	var ds []Sx
	for _, d := range ch.diffs {
		ds = append(ds, T([]string{"e", "i", "d", "x"}[d[0]], I(d[1])))
	}
	return T("mod", I(names.id(ch.name)), I(langs.id(ch.lang)), I(names.id(ch.from)), B(ch.hasFD), I(ch.old), I(ch.new), T("ds", ds...))
}

// ---------------------------------------------------------------------------------------------
// direct cases: LinesStatsCalculator.Consume on fabricated dependencies

type dchange struct {
	kind  string // ins | del | mod
	name  int
	n     int // ins/del: number of lines; -1 = binary
	fin   bool
	diffs [][2]int // 0 eq 1 ins 2 del
}

func (d dchange) sx() Sx {
	if d.kind != "mod" {
		return T(d.kind, I(d.name), I(d.n), B(d.fin))
	}
	var ds []Sx
	for _, e := range d.diffs {
		ds = append(ds, T([]string{"e", "i", "d"}[e[0]], I(e[1])))
	}
	return T("mod", append([]Sx{I(d.name)}, ds...)...)
}

func parseDChange(s Sx) dchange {
	d := dchange{kind: s.Tag(), name: s.List[1].Int()}
	if d.kind != "mod" {
		d.n = s.List[2].Int()
		d.fin = s.List[3].Int() != 0
		return d
	}
	for _, e := range s.List[2:] {
		code := map[string]int{"e": 0, "i": 1, "d": 2}[e.Tag()]
		d.diffs = append(d.diffs, [2]int{code, e.List[1].Int()})
	}
	return d
}

// text of n runes, a mixture of one- to four-byte encodings, different for every call
var runeSrc = []rune{'a', 'é', '\n', '€', '😀', 'z', 0x7ff, 0xffff, 0x10000, ' '}

func runes(n, salt int) string {
	var sb strings.Builder
	for i := 0; i < n; i++ {
		sb.WriteRune(runeSrc[(i*7+salt)%len(runeSrc)])
	}
	return sb.String()
}

func blobData(n int, fin bool, salt int) []byte {
	if n < 0 {
		return []byte(fmt.Sprintf("bin\x00%d\n", salt))
	}
	var sb strings.Builder
	for i := 0; i < n; i++ {
		fmt.Fprintf(&sb, "l%d-%d\n", salt, i)
	}
	s := sb.String()
	if !fin && n > 0 {
		s = s[:len(s)-1]
	}
	return []byte(s)
}

func runDirect(c *Config, kind string, merge bool, chs []dchange) {
	var items []Sx
	nt := false
	for _, d := range chs {
		items = append(items, d.sx())
		if d.kind == "mod" && len(d.diffs) >= 2 {
			nt = true
		}
	}
	head := []Sx{T("kind", A(kind)), T("nt", B(nt)), T("mode", A("direct")), T("merge", B(merge)), T("items", items...)}
	var changes object.Changes
	cache := map[plumbing.Hash]*api.CachedBlob{}
	fds := map[string]api.FileDiffData{}
	fromTree, toTree := &object.Tree{}, &object.Tree{Hash: plumbing.NewHash("01")}
	entry := func(tree *object.Tree, name string, data []byte) object.ChangeEntry {
		h := plumbing.ComputeHash(plumbing.BlobObject, data)
		cache[h] = &api.CachedBlob{Data: data}
		return object.ChangeEntry{Name: name, Tree: tree, TreeEntry: object.TreeEntry{Name: name, Mode: filemode.Regular, Hash: h}}
	}
	for i, d := range chs {
		name := fmt.Sprintf("f%d", d.name)
		switch d.kind {
		case "ins":
			changes = append(changes, &object.Change{To: entry(toTree, name, blobData(d.n, d.fin, d.name))})
		case "del":
			changes = append(changes, &object.Change{From: entry(fromTree, name, blobData(d.n, d.fin, d.name))})
		case "mod":
			changes = append(changes, &object.Change{From: entry(fromTree, name, blobData(1, true, 1000+2*d.name)), To: entry(toTree, name, blobData(1, true, 1001+2*d.name))})
			var diffs []diffmatchpatch.Diff
			for j, e := range d.diffs {
				ty := []diffmatchpatch.Operation{diffmatchpatch.DiffEqual, diffmatchpatch.DiffInsert, diffmatchpatch.DiffDelete}[e[0]]
				diffs = append(diffs, diffmatchpatch.Diff{Type: ty, Text: runes(e[1], i+j)})
			}
			fds[name] = api.FileDiffData{Diffs: diffs}
		}
	}
	var res map[object.ChangeEntry]api.LineStats
	var err error
	_, panicked := Catch(func() {
		lsc := &api.LinesStatsCalculator{}
		lsc.Initialize(nil)
		var out map[string]interface{}
		out, err = lsc.Consume(map[string]interface{}{
			api.DependencyIsMerge:     merge,
			api.DependencyTreeChanges: changes,
			api.DependencyBlobCache:   cache,
			api.DependencyFileDiff:    fds,
		})
		if err == nil {
			res = out[api.DependencyLineStats].(map[object.ChangeEntry]api.LineStats)
		}
	})
	if panicked {
		c.Emit(append(head, T("obs", T("panic")))...)
		return
	}
	if err != nil {
		c.Emit(append(head, T("obs", T("error")))...)
		return
	}
	type row struct{ side, name, a, r, c int }
	var rows []row
	for e, s := range res {
		side := 1
		if e.Tree == fromTree {
			side = 0
		}
		var id int
		fmt.Sscanf(e.Name, "f%d", &id)
		rows = append(rows, row{side, id, s.Added, s.Removed, s.Changed})
	}
	sort.Slice(rows, func(i, j int) bool {
		if rows[i].name != rows[j].name {
			return rows[i].name < rows[j].name
		}
		return rows[i].side < rows[j].side
	})
	var sts []Sx
	for _, r := range rows {
		sts = append(sts, T("k", I(r.side), I(r.name), I(0), I(r.a), I(r.r), I(r.c)))
	}
	c.Emit(append(head, T("obs", T("st", sts...)))...)
}

// ---------------------------------------------------------------------------------------------
// generators

func genScript(c *Config, canonical bool, maxLen, maxN int) [][2]int {
	n := c.Rng.Intn(maxLen + 1)
	var ds [][2]int
	prev := -1
	for len(ds) < n {
		o := c.Rng.Intn(3)
		if canonical && (o == prev || (prev == 1 && o == 2)) {
			continue
		}
		cnt := 1 + c.Rng.Intn(maxN)
		if !canonical && c.Rng.Intn(10) == 0 {
			cnt = 0
		}
		if c.Rng.Intn(25) == 0 {
			cnt = 50 + c.Rng.Intn(3000)
		}
		ds = append(ds, [2]int{o, cnt})
		prev = o
	}
	return ds
}

func genDirect(c *Config, canonical bool) []dchange {
	n := 1 + c.Rng.Intn(6)
	var chs []dchange
	for i := 0; i < n; i++ {
		if !canonical && i > 0 && c.Rng.Intn(8) == 0 {
			// the same change entry twice in one list (the map entry is overwritten): an exact copy of an
			// inserted / deleted file, or a second script for the same modified file
			d := chs[c.Rng.Intn(len(chs))]
			if d.kind == "mod" {
				d.diffs = genScript(c, canonical, 8, 5)
			}
			chs = append(chs, d)
			continue
		}
		switch c.Rng.Intn(6) {
		case 0:
			d := dchange{kind: "ins", name: i, n: c.Rng.Intn(6), fin: c.Rng.Intn(3) > 0}
			if c.Rng.Intn(5) == 0 {
				d.n = -1
			}
			chs = append(chs, d)
		case 1:
			d := dchange{kind: "del", name: i, n: c.Rng.Intn(6), fin: c.Rng.Intn(3) > 0}
			if c.Rng.Intn(5) == 0 {
				d.n = -1
			}
			chs = append(chs, d)
		default:
			chs = append(chs, dchange{kind: "mod", name: i, diffs: genScript(c, canonical, 8, 5)})
		}
	}
	return chs
}

// exhaustiveScripts enumerates every script of at most maxLen edits with counts 0..maxN-1 shifted by lo,
// packed as Modify changes of one commit, chunk files per case.
func exhaustiveScripts(c *Config, maxLen int, counts []int, chunk int) {
	var cur [][2]int
	var batch []dchange
	flush := func() {
		if len(batch) > 0 {
			runDirect(c, fmt.Sprintf("direct-exhaustive-%d", maxLen), false, batch)
			batch = nil
		}
	}
	var rec func()
	rec = func() {
		batch = append(batch, dchange{kind: "mod", name: len(batch), diffs: append([][2]int{}, cur...)})
		if len(batch) == chunk {
			flush()
		}
		if len(cur) == maxLen {
			return
		}
		for o := 0; o < 3; o++ {
			for _, n := range counts {
				cur = append(cur, [2]int{o, n})
				rec()
				cur = cur[:len(cur)-1]
			}
		}
	}
	rec()
	flush()
}

// exhaustiveDags enumerates every history of n commits in which commit i picks any set of at most three
// earlier commits as parents (none = a further root) and either repeats the tree of its first parent
// (empty tree for a root) or has content of its own; both settings of ConsiderEmptyCommits.
func exhaustiveDags(c *Config, n int) {
	var subsets func(i int) [][]int
	subsets = func(i int) [][]int {
		var res [][]int
		for m := 0; m < 1<<uint(i); m++ {
			var ps []int
			for b := 0; b < i; b++ {
				if m&(1<<uint(b)) != 0 {
					ps = append(ps, b)
				}
			}
			if len(ps) <= 3 {
				res = append(res, ps)
			}
		}
		return res
	}
	parents := make([][]int, n)
	var rec func(i int)
	rec = func(i int) {
		if i == n {
			for bits := 0; bits < 1<<uint(n); bits++ {
				cs := make([]commitIn, n)
				for j := 0; j < n; j++ {
					cs[j] = commitIn{ID: j, Parents: append([]int{}, parents[j]...), Author: j % 2, Tick: j / 2}
					if bits&(1<<uint(j)) != 0 {
						var sb strings.Builder
						for l := 0; l <= j; l++ {
							fmt.Fprintf(&sb, "x%d-%d\n", j, l%2)
						}
						cs[j].Files = []fileIn{{"a.go", []byte(sb.String())}}
						if j%3 == 2 {
							cs[j].Files = append(cs[j].Files, fileIn{"b.py", []byte(fmt.Sprintf("y%d\n", j))})
						}
					} else if len(parents[j]) > 0 {
						cs[j].Files = append([]fileIn{}, cs[parents[j][0]].Files...)
					}
				}
				for _, cec := range []bool{false, true} {
					runPipe(c, fmt.Sprintf("dags-exhaustive-%d", n), cec, true, cs)
				}
			}
			return
		}
		for _, ps := range subsets(i) {
			parents[i] = ps
			rec(i + 1)
		}
	}
	rec(0)
}

func genPipe(c *Config, kind string) []commitIn {
	switch kind {
	case "hist", "hist-single":
		o := synth.GenOpts{MaxCommits: 4 + c.Rng.Intn(9), SingleHead: kind == "hist-single", Authors: 1 + c.Rng.Intn(3), Paths: 1 + c.Rng.Intn(3), MergeAddsPr: []int{0, 2, 3}[c.Rng.Intn(3)]}
		return fromHist(synth.GenHist(c.Rng, o))
	case "linear":
		na := 1 + c.Rng.Intn(3)
		return fromLinear(synth.GenLinear(c.Rng, 3+c.Rng.Intn(8)), func() int { return c.Rng.Intn(na) })
	}
	// "empties": a history with merges in which many commits repeat the tree of a parent
	// (empty commits, merges that take one side unchanged, fast-forward-like merges)
	cs := fromHist(synth.GenHist(c.Rng, synth.GenOpts{MaxCommits: 4 + c.Rng.Intn(8), SingleHead: c.Rng.Intn(2) == 0, Authors: 2, Paths: 2, MergeAddsPr: 3}))
	for i := range cs {
		if len(cs[i].Parents) > 0 && c.Rng.Intn(3) == 0 {
			p := cs[i].Parents[c.Rng.Intn(len(cs[i].Parents))]
			cs[i].Files = append([]fileIn{}, cs[p].Files...)
		}
		if c.Rng.Intn(12) == 0 {
			cs[i].Files = nil
		}
	}
	return cs
}

func main() {
	log.SetOutput(ioutil.Discard)
	only := flag.String("only", "", "restrict the generators to one kind (debugging)")
	c := Setup()
	defer c.Close()
	if c.Replay != "" {
		for _, cs := range c.ReplayCases() {
			kind := "replay"
			if k, ok := cs.Field("kind"); ok {
				kind = k.List[1].Atom
			}
			mode, _ := cs.Field("mode")
			items, _ := cs.Field("items")
			if mode.List[1].Atom == "direct" {
				merge, _ := cs.Field("merge")
				var chs []dchange
				for _, it := range items.Args() {
					chs = append(chs, parseDChange(it))
				}
				runDirect(c, kind, merge.List[1].Int() != 0, chs)
			} else {
				cec, _ := cs.Field("cec")
				ren, _ := cs.Field("ren")
				var cis []commitIn
				for _, it := range items.Args() {
					cis = append(cis, parseCommit(it))
				}
				runPipe(c, kind, cec.List[1].Int() != 0, ren.List[1].Int() != 0, cis)
			}
		}
		return
	}
	want := func(k string) bool { return *only == "" || *only == k }

	// 1. direct: exhaustive small scripts, then random arbitrary and canonical change lists
	if want("direct") {
		if c.Thorough() {
			exhaustiveScripts(c, 5, []int{1, 2, 3}, 64)
			exhaustiveScripts(c, 4, []int{0, 1, 2, 5}, 64)
		} else {
			exhaustiveScripts(c, 4, []int{1, 2, 3}, 64)
			exhaustiveScripts(c, 3, []int{0, 1, 2, 5}, 64)
		}
		for i := c.Count(4000, 60000); i > 0; i-- {
			runDirect(c, "direct-arbitrary", c.Rng.Intn(10) == 0, genDirect(c, false))
		}
		for i := c.Count(4000, 60000); i > 0; i-- {
			runDirect(c, "direct-canonical", c.Rng.Intn(10) == 0, genDirect(c, true))
		}
	}
	// 2. real pipeline runs
	if want("pipe") {
		for n := 1; n <= 4; n++ {
			exhaustiveDags(c, n)
		}
		if c.Thorough() {
			exhaustiveDags(c, 5)
		}
		for _, k := range []struct {
			kind string
			q, t int
		}{{"hist", 1200, 12000}, {"hist-single", 800, 8000}, {"empties", 1200, 12000}, {"linear", 1000, 10000}} {
			for i := c.Count(k.q, k.t); i > 0; i-- {
				cs := genPipe(c, k.kind)
				cec := c.Rng.Intn(2) == 0
				ren := c.Rng.Intn(2) == 0
				runPipe(c, k.kind, cec, ren, cs)
			}
		}
	}
}
