package main

import (
	"fmt"
	"math/rand"
	"os"
	"sort"
	"strings"

	. "verifharness/lib"
)

const (
	modeReg  = 0100644
	modeExec = 0100755
	modeLink = 0120000
)

func sp(s string) *string { return &s }

// ---------------------------------------------------------------------------------------------
// configurations

// stable configurations: the language of every generated name is fixed by its extension and the
// regexps do not match the empty name (or match everything)
func stableCfg(rng *rand.Rand) cfgT {
	var c cfgT
	c.skip = [][]string{{"vendor/", "vendors/", "package-lock.json", "Gopkg.lock"}, {"d/"}, {"d/e", "x.go"}, {"lib/gen/", "a"}, {""}, {}}[rng.Intn(6)]
	c.blacklist = rng.Intn(3) == 0
	switch rng.Intn(8) {
	case 0:
		c.regex = sp("")
	case 1:
		c.regex = sp(`\.go$`)
	case 2:
		c.regex = sp(`^d/`)
	case 3:
		c.regex = sp(`a`)
	case 4:
		c.regex = sp(`^(d/e/.+|[a-c]\..*)$`)
	}
	switch rng.Intn(8) {
	case 0:
		c.langs = []string{"all"}
	case 1:
		c.langs = []string{"go"}
	case 2:
		c.langs = []string{" Python", "GO "}
	case 3:
		c.langs = []string{"text"}
	case 4:
		c.langs = []string{"go", "all"}
	case 5:
		c.langs = []string{}
	}
	c.failMissing = false
	return c
}

// ---------------------------------------------------------------------------------------------
// tree states and their mutation

type fstate struct {
	mode int
	data string
}

type tstate map[string]fstate

func (t tstate) clone() tstate {
	r := tstate{}
	for k, v := range t {
		r[k] = v
	}
	return r
}

func (t tstate) files() []fileT {
	var names []string
	for k := range t {
		names = append(names, k)
	}
	sort.Strings(names)
	fs := make([]fileT, len(names))
	for i, k := range names {
		fs[i] = fileT{path: k, mode: t[k].mode, data: []byte(t[k].data)}
	}
	return fs
}

// put adds a leaf and removes whatever cannot coexist with it (a leaf where a directory is needed or
// the other way round)
func (t tstate) put(p string, f fstate) {
	for k := range t {
		if k != p && (strings.HasPrefix(k, p+"/") || strings.HasPrefix(p, k+"/")) {
			delete(t, k)
		}
	}
	t[p] = f
}

var namePool = []string{"a.go", "b.py", "c.txt", "d/a.go", "d/b.py", "d/e/f.go", "d/e/g.txt", "vendor/x.go", "lib/gen/y.go",
	"x.go", "Main.go", "e/h.py", "d", "d/e", "lib", "sub", "mods/m1", "e/h.py/z.go"}

func content(rng *rand.Rand, name string) string {
	switch rng.Intn(40) {
	case 0, 1, 2, 3:
		return ""
	case 4:
		return strings.Repeat("x\n", 510+rng.Intn(6)) // around the 1 KiB language sniffing buffer
	case 5, 6, 7, 8:
		return "package a\n"
	default:
		return fmt.Sprintf("v%d\n", rng.Intn(6))
	}
}

// names without an extension only carry submodule entries, so that the language of every blob is
// fixed by the extension of its name
func subOnly(name string) bool {
	return !strings.Contains(name[strings.LastIndex(name, "/")+1:], ".")
}

// noSubFlip is set while a case with a language restriction is drawn: there a path must not change
// between a submodule entry (no blob, so no language) and a file, which is the open finding
// "language-flip" (kind langflip)
var noSubFlip bool

func randomLeaf(rng *rand.Rand, name string) fstate {
	if subOnly(name) {
		return fstate{modeSub, fmt.Sprintf("s%d", rng.Intn(3))}
	}
	if noSubFlip {
		switch rng.Intn(12) {
		case 0, 1:
			return fstate{modeExec, content(rng, name)}
		case 2:
			return fstate{modeLink, namePool[rng.Intn(len(namePool))]}
		default:
			return fstate{modeReg, content(rng, name)}
		}
	}
	switch rng.Intn(12) {
	case 0, 1:
		return fstate{modeExec, content(rng, name)}
	case 2:
		return fstate{modeLink, namePool[rng.Intn(len(namePool))]}
	case 3, 4:
		return fstate{modeSub, fmt.Sprintf("s%d", rng.Intn(3))}
	default:
		return fstate{modeReg, content(rng, name)}
	}
}

func mutate(rng *rand.Rand, t tstate) tstate {
	t = t.clone()
	k := 1 + rng.Intn(3)
	for ; k > 0; k-- {
		var names []string
		for n := range t {
			names = append(names, n)
		}
		sort.Strings(names)
		pick := func() string { return names[rng.Intn(len(names))] }
		switch r := rng.Intn(10); {
		case r < 3 || len(names) == 0: // add or overwrite
			n := namePool[rng.Intn(len(namePool))]
			t.put(n, randomLeaf(rng, n))
		case r == 3: // delete
			delete(t, pick())
		case r == 4: // mode change only
			n := pick()
			f := t[n]
			if f.mode == modeReg {
				f.mode = modeExec
			} else if f.mode == modeExec {
				f.mode = modeReg
			} else if f.mode == modeLink {
				f.mode = modeReg
			}
			t[n] = f
		case r == 5: // move: the same blob under another path
			n := pick()
			m := namePool[rng.Intn(len(namePool))]
			f := t[n]
			if subOnly(m) != subOnly(n) {
				continue
			}
			delete(t, n)
			t.put(m, f)
		case r == 6: // copy
			n := pick()
			m := namePool[rng.Intn(len(namePool))]
			if subOnly(m) != subOnly(n) {
				continue
			}
			t.put(m, t[n])
		case r == 7: // file <-> submodule at the same path
			n := pick()
			f := t[n]
			if noSubFlip {
				continue
			}
			if f.mode == modeSub && !subOnly(n) {
				t[n] = fstate{modeReg, content(rng, n)}
			} else {
				t[n] = fstate{modeSub, fmt.Sprintf("s%d", rng.Intn(3))}
			}
		default: // new content (or submodule bump)
			n := pick()
			f := t[n]
			if f.mode == modeSub {
				f.data = fmt.Sprintf("s%d", rng.Intn(3))
			} else if f.mode == modeLink {
				f.data = namePool[rng.Intn(len(namePool))]
			} else {
				f.data = content(rng, n)
			}
			t[n] = f
		}
	}
	return t
}

func randomTree(rng *rand.Rand) tstate {
	t := tstate{}
	for k := rng.Intn(6); k > 0; k-- {
		n := namePool[rng.Intn(len(namePool))]
		t.put(n, randomLeaf(rng, n))
	}
	return t
}

// ---------------------------------------------------------------------------------------------
// histories and replay orders

func randomParents(rng *rand.Rand, n int, linear bool, roots bool) [][]int {
	ps := make([][]int, n)
	for c := 1; c < n; c++ {
		if linear {
			ps[c] = []int{c - 1}
			continue
		}
		if roots && rng.Intn(12) == 0 {
			continue // another root
		}
		k := 1
		if r := rng.Intn(10); r < 3 && c >= 2 {
			k = 2
		} else if r == 3 && c >= 3 {
			k = 3
		}
		seen := map[int]bool{}
		for len(ps[c]) < k {
			w := c
			if w > 4 {
				w = 4
			}
			p := c - 1 - rng.Intn(w)
			if !seen[p] {
				seen[p] = true
				ps[c] = append(ps[c], p)
			}
		}
	}
	return ps
}

func restrictsLanguages(c cfgT) bool {
	if c.langs == nil {
		return false
	}
	for _, l := range c.langs {
		if strings.ToLower(strings.TrimSpace(l)) == "all" {
			return false
		}
	}
	return true
}

// draw makes a case of an ordinary stream: the configuration first, then a history that respects it
func draw(rng *rand.Rand, kind string, parents [][]int, cfg cfgT, ops []opT) caseT {
	noSubFlip = restrictsLanguages(cfg)
	defer func() { noSubFlip = false }()
	return caseT{kind: kind, cfg: cfg, commits: history(rng, parents), ops: ops}
}

// history draws the trees: a commit starts from the tree of one of its parents
func history(rng *rand.Rand, parents [][]int) []commitT {
	states := make([]tstate, len(parents))
	cs := make([]commitT, len(parents))
	for c := range parents {
		if len(parents[c]) == 0 {
			states[c] = randomTree(rng)
		} else {
			base := states[parents[c][rng.Intn(len(parents[c]))]]
			if rng.Intn(10) == 0 {
				states[c] = base.clone() // nothing changes
			} else {
				states[c] = mutate(rng, base)
			}
		}
		cs[c] = commitT{parents: parents[c], files: states[c].files()}
	}
	return cs
}

// plan replays every commit after each of its parents on the parent's branch, forking where a commit
// has several children, the way core/forks.go schedules a run (merge commits are consumed once per
// parent branch; the first of these branches continues)
func plan(parents [][]int) []opT {
	n := len(parents)
	nchildren := make([]int, n)
	for c := range parents {
		for _, p := range parents[c] {
			nchildren[p]++
		}
	}
	var ops []opT
	nb := 1
	// branch 1 is the pristine clone kept for further roots
	ops = append(ops, opT{kind: "fork", b: 0, n: 1})
	nb++
	at := make([][]int, n)
	firstRoot := true
	for c := 0; c < n; c++ {
		var keep int
		if len(parents[c]) == 0 {
			if firstRoot {
				keep = 0
				firstRoot = false
			} else {
				ops = append(ops, opT{kind: "fork", b: 1, n: 1})
				keep = nb
				nb++
			}
			ops = append(ops, opT{kind: "consume", b: keep, c: c})
		} else {
			keep = -1
			for _, p := range parents[c] {
				b := at[p][0]
				at[p] = at[p][1:]
				ops = append(ops, opT{kind: "consume", b: b, c: c})
				if keep < 0 {
					keep = b
				}
			}
		}
		at[c] = []int{keep}
		if nchildren[c] > 1 {
			ops = append(ops, opT{kind: "fork", b: keep, n: nchildren[c] - 1})
			for k := 0; k < nchildren[c]-1; k++ {
				at[c] = append(at[c], nb)
				nb++
			}
		}
	}
	return ops
}

func perturb(rng *rand.Rand, ops []opT, ncommits int) []opT {
	nb := 1
	var res []opT
	for _, o := range ops {
		switch rng.Intn(8) {
		case 0:
			res = append(res, opT{kind: "consume", b: rng.Intn(nb), c: rng.Intn(ncommits)})
		case 1:
			if rng.Intn(3) == 0 {
				res = append(res, opT{kind: "init", b: rng.Intn(nb)})
			}
		case 2:
			continue // drop the step
		}
		res = append(res, o)
		if o.kind == "fork" {
			nb += o.n
		}
	}
	return res
}

// ---------------------------------------------------------------------------------------------
// exhaustive small scope: all ordered pairs of trees over two slots

func slotA() []tstate {
	return []tstate{
		{},
		{"a.go": {modeReg, "v1\n"}},
		{"a.go": {modeReg, "v2\n"}},
		{"a.go": {modeExec, "v1\n"}},
		{"a.go": {modeSub, "s1"}},
		{"a.go": {modeSub, "s2"}},
		{"a.go/b.go": {modeReg, "v1\n"}},
		{"a.go/b.go": {modeReg, "v2\n"}, "a.go/c.py": {modeReg, "v1\n"}},
	}
}

func slotC() []tstate {
	return []tstate{
		{},
		{"c.py": {modeReg, "v1\n"}},
		{"c.py": {modeReg, "v2\n"}},
		{"c.py": {modeLink, "a.go"}},
	}
}

func union(a, b tstate) tstate {
	r := a.clone()
	for k, v := range b {
		r[k] = v
	}
	return r
}

func pairCfgs() []cfgT {
	return []cfgT{
		{skip: []string{}},
		{skip: []string{}, langs: []string{"go"}},
		{skip: []string{"a.go/"}, blacklist: true, regex: sp(`\.(go|py)$`)},
		{skip: []string{}, regex: sp(`^c`), langs: []string{"python", "go"}},
	}
}

func pairs(c *Config) {
	var trees []tstate
	for _, a := range slotA() {
		for _, b := range slotC() {
			trees = append(trees, union(a, b))
		}
	}
	cfgs := pairCfgs()
	if !c.Thorough() {
		cfgs = cfgs[:2]
	}
	for _, cfg := range cfgs {
		for _, p := range trees {
			for _, q := range trees {
				emit(c, caseT{kind: "pairs", cfg: cfg,
					commits: []commitT{{files: p.files()}, {parents: []int{0}, files: q.files()}},
					ops:     []opT{{kind: "consume", b: 0, c: 0}, {kind: "consume", b: 0, c: 1}}})
			}
		}
	}
}

// ---------------------------------------------------------------------------------------------
// the two inputs on which the property is false of the code as it is (see docs/C20.md)

func langflip(c *Config, n int) {
	bodies := []string{"#!/usr/bin/env python\nprint(1)\n", "#!/bin/sh\necho 1\n", "#!/usr/bin/env python\nprint(2)\n", "#!/bin/sh\necho 2\n"}
	for i := 0; i < n; i++ {
		k := 3 + c.Rng.Intn(3)
		var commits []commitT
		var ops []opT
		for j := 0; j < k; j++ {
			t := tstate{"run": {modeExec, bodies[c.Rng.Intn(len(bodies))]}, "a.go": {modeReg, fmt.Sprintf("v%d\n", c.Rng.Intn(3))}}
			cm := commitT{files: t.files()}
			if j > 0 {
				cm.parents = []int{j - 1}
			}
			commits = append(commits, cm)
			ops = append(ops, opT{kind: "consume", b: 0, c: j})
		}
		langs := [][]string{{"python"}, {"shell", "go"}}[c.Rng.Intn(2)]
		emit(c, caseT{kind: "langflip", cfg: cfgT{skip: []string{}, langs: langs}, commits: commits, ops: ops})
	}
}

func emptymatch(c *Config, n int) {
	for i := 0; i < n; i++ {
		k := 2 + c.Rng.Intn(4)
		commits := history(c.Rng, randomParents(c.Rng, k, true, false))
		var ops []opT
		for j := 0; j < k; j++ {
			ops = append(ops, opT{kind: "consume", b: 0, c: j})
		}
		re := []string{`^[a-z]*$`, `^(d/.*)?$`}[c.Rng.Intn(2)]
		emit(c, caseT{kind: "emptymatch", cfg: cfgT{skip: []string{}, regex: sp(re)}, commits: commits, ops: ops})
	}
}

// ---------------------------------------------------------------------------------------------
// damaged repositories and the strict submodule mode

func gitmodules(names []string) string {
	var sb strings.Builder
	for _, n := range names {
		fmt.Fprintf(&sb, "[submodule \"%s\"]\n\tpath = %s\n\turl = https://example.com/%s\n", n, n, strings.Replace(n, "/", "-", -1))
	}
	return sb.String()
}

func malformed(c *Config, n int) {
	rng := c.Rng
	for i := 0; i < n; i++ {
		k := 2 + rng.Intn(5)
		parents := randomParents(rng, k, rng.Intn(2) == 0, false)
		cfg := stableCfg(rng)
		cfg.failMissing = rng.Intn(3) > 0
		commits := draw(rng, "malformed", parents, cfg, nil).commits
		for j := range commits {
			// a .gitmodules that registers some of the submodule entries, none, or garbage
			var subs []string
			for _, f := range commits[j].files {
				if f.mode == modeSub && rng.Intn(3) > 0 {
					subs = append(subs, f.path)
				}
			}
			switch rng.Intn(6) {
			case 0: // no .gitmodules at all
			case 1:
				commits[j].files = append(commits[j].files, fileT{path: ".gitmodules", mode: modeReg, data: []byte("[submodule \"broken\n")})
			default:
				commits[j].files = append(commits[j].files, fileT{path: ".gitmodules", mode: modeReg, data: []byte(gitmodules(subs))})
			}
			// blobs missing from the object store
			if rng.Intn(3) == 0 {
				for x := range commits[j].files {
					if commits[j].files[x].mode != modeSub && rng.Intn(4) == 0 {
						commits[j].files[x].drop = true
					}
				}
			}
		}
		ops := plan(parents)
		if rng.Intn(3) == 0 {
			ops = perturb(rng, ops, k)
		}
		emit(c, caseT{kind: "malformed", cfg: cfg, commits: commits, ops: ops})
	}
}

// ---------------------------------------------------------------------------------------------

func generate(c *Config) {
	rng := c.Rng
	if os.Getenv("C20_ONLY") == "scale" { // development aid: the scale streams alone
		scale(c)
		return
	}
	if os.Getenv("C20_ONLY") == "round3" {
		round3(c)
		return
	}
	pairs(c)
	scale(c)
	for i := c.Count(2500, 10000); i > 0; i-- {
		k := 2 + rng.Intn(7)
		parents := randomParents(rng, k, true, false)
		emit(c, draw(rng, "linear", parents, stableCfg(rng), plan(parents)))
	}
	for i := c.Count(4000, 16000); i > 0; i-- {
		k := 3 + rng.Intn(8)
		parents := randomParents(rng, k, false, true)
		emit(c, draw(rng, "dag", parents, stableCfg(rng), plan(parents)))
	}
	for i := c.Count(2500, 10000); i > 0; i-- {
		k := 3 + rng.Intn(6)
		parents := randomParents(rng, k, false, true)
		cfg := stableCfg(rng)
		emit(c, draw(rng, "wrong", parents, cfg, perturb(rng, plan(parents), k)))
	}
	malformed(c, c.Count(2000, 8000))
	round3(c)
	langflip(c, c.Count(30, 200))
	emptymatch(c, c.Count(300, 1500))
}
