(* C18: replay the harness trace through the extracted Gallina model of the three MergeResults and of
   CommonAnalysisResult.Merge (fine correspondence, MISMATCH) and judge the real outputs with the
   extracted specification oracles (PROPFAIL). *)
open C18_model
open Conv

(* every message about a call of a chained case is prefixed with the call *)
let pfx = ref ""
(* names are byte strings (round 4: invalid UTF-8, NUL, CR ...): a report line is printable ASCII, other bytes as \xHH *)
let printable (s : string) : string =
  let b = Buffer.create (String.length s) in
  String.iter (fun c -> if c >= ' ' && c <= '~' then Buffer.add_char b c else Buffer.add_string b (Printf.sprintf "\\x%02x" (Char.code c))) s;
  Buffer.contents b
let mismatch id m = Conv.mismatch id (printable (!pfx ^ m))
let propfail id m = Conv.propfail id (printable (!pfx ^ m))

(* ---------- conversions ---------- *)
let name_of_sx (s : sx) : z list =
  let a = atom s in
  let n = String.length a in
  if n < 2 || a.[0] <> '"' || a.[n - 1] <> '"' then failwith ("string atom expected: " ^ a);
  if not (String.contains a '\\') then List.init (n - 2) (fun i -> z_of_int (Char.code a.[i + 1]))
  else begin
    (* the harness writes every byte outside the printable ASCII range, parentheses, the double quote and the backslash as \xHH *)
    let hex c = match c with '0' .. '9' -> Char.code c - 48 | 'a' .. 'f' -> Char.code c - 87 | 'A' .. 'F' -> Char.code c - 55
                             | _ -> failwith ("bad escape in string atom: " ^ a) in
    let rec go i acc =
      if i >= n - 1 then List.rev acc
      else if a.[i] = '\\' && i + 3 < n && a.[i + 1] = 'x' then go (i + 4) (z_of_int (16 * hex a.[i + 2] + hex a.[i + 3]) :: acc)
      else go (i + 1) (z_of_int (Char.code a.[i]) :: acc) in
    go 1 []
  end
let string_of_name (l : z list) : string =
  String.concat "" (List.map (fun c -> String.make 1 (Char.chr (int_of_z c))) l)
let names_of (s : sx) : z list list = List.map name_of_sx (args s)
let z_of_sx s = z_of_int (int_of_sx s)

let common_of_sx (s : sx) : common =
  match args s with
  | [b; e; c; r; items] ->
      let it = args items in
      let present = int_of_sx (List.hd it) <> 0 in
      { c_begin = z_of_sx b; c_end = z_of_sx e; c_commits = z_of_sx c; c_runtime = z_of_sx r;
        c_items = if present then Some (List.map name_of_sx (List.tl it)) else None }
  | _ -> failwith "common"

let ls_of a r c = { ls_added = z_of_sx a; ls_removed = z_of_sx r; ls_changed = z_of_sx c }

let devs_of_sx (s : sx) : devsResult =
  let ticks = List.map (fun t ->
      match list_of_sx t with
      | tk :: devs ->
          (z_of_sx tk, List.map (fun e ->
               match list_of_sx e with
               | d :: c :: a :: r :: ch :: langs ->
                   (z_of_sx d, { dt_commits = z_of_sx c; dt_ls = ls_of a r ch;
                                 dt_langs = List.map (fun l -> match list_of_sx l with
                                     | [n; a; r; c] -> (name_of_sx n, ls_of a r c)
                                     | _ -> failwith "lang") langs })
               | _ -> failwith "dev entry") devs)
      | _ -> failwith "tick") (args (field "ticks" s)) in
  { dr_ticks = ticks; dr_people = names_of (field "people" s);
    dr_ticksize = z_of_sx (List.hd (args (field "ticksize" s))) }

let kvrows_of (s : sx) : row list =
  List.map (fun r -> List.map (fun kv -> match list_of_sx kv with
      | [k; v] -> (z_of_sx k, z_of_sx v) | _ -> failwith "kv") (list_of_sx r)) (args s)

let couples_of_sx (s : sx) : couplesResult =
  { cr_pm = kvrows_of (field "pm" s); cr_pf = List.map zs_of_sx (args (field "pf" s));
    cr_fm = kvrows_of (field "fm" s); cr_fl = List.map z_of_sx (args (field "lines" s));
    cr_files = names_of (field "files" s); cr_people = names_of (field "people" s) }

let mat_of_sx (s : sx) : matrix = List.map zs_of_sx (list_of_sx s)

let burndown_of_sx (s : sx) : burndownResult =
  let one t = List.hd (args (field t s)) in
  { br_global = mat_of_sx (one "global"); br_ph = List.map mat_of_sx (args (field "ph" s));
    br_pm = mat_of_sx (one "pm"); br_people = names_of (field "people" s);
    br_ticksize = z_of_sx (one "ticksize"); br_sampling = z_of_sx (one "sampling");
    br_granularity = z_of_sx (one "granularity") }

let table_of_sx (s : sx) : table * z list list =
  let entries = List.map (fun e -> match list_of_sx e with
      | [k; f; a; b] -> (name_of_sx k, { final = z_of_sx f; first = z_of_sx a; second = z_of_sx b })
      | _ -> failwith "table entry") (args (field "entries" s)) in
  (entries, names_of (field "merged" s))

(* ---------- canonical forms for comparison (Go maps have no order) ---------- *)
let sort_assoc l = List.sort (fun (a, _) (b, _) -> compare a b) l
let canon_devs (d : devsResult) =
  (List.map string_of_name d.dr_people, int_of_z d.dr_ticksize,
   sort_assoc (List.map (fun (t, dd) ->
       (int_of_z t, sort_assoc (List.map (fun (dv, s) ->
            (int_of_z dv, (int_of_z s.dt_commits, int_of_z s.dt_ls.ls_added, int_of_z s.dt_ls.ls_removed,
                           int_of_z s.dt_ls.ls_changed,
                           sort_assoc (List.map (fun (n, l) ->
                               (string_of_name n, (int_of_z l.ls_added, int_of_z l.ls_removed, int_of_z l.ls_changed)))
                               s.dt_langs)))) dd))) d.dr_ticks))
let canon_rows (rows : row list) = List.map (fun r -> sort_assoc (List.map (fun (k, v) -> (int_of_z k, int_of_z v)) r)) rows
let canon_couples (c : couplesResult) =
  (List.map string_of_name c.cr_people, List.map string_of_name c.cr_files, List.map int_of_z c.cr_fl,
   List.map (List.map int_of_z) c.cr_pf, canon_rows c.cr_pm, canon_rows c.cr_fm)
let canon_common (c : common) =
  (int_of_z c.c_begin, int_of_z c.c_end, int_of_z c.c_commits, int_of_z c.c_runtime,
   match c.c_items with None -> None | Some l -> Some (List.sort compare (List.map string_of_name l)))

let show_ints l = "[" ^ String.concat ";" (List.map string_of_int l) ^ "]"
let kind_of r = match r with Ok _ -> "ok" | Panic -> "panic" | TickErr -> "tickerr"

(* compare the kind of outcome; returns the two payloads when both are ok *)
let outcome id what (model : 'a result) (out : sx) : ('a * sx) option =
  let gk = tag out in
  let mk = kind_of model in
  if gk <> mk then begin
    (* a panic where the specification defines a result is a failure of the property, not only of the model *)
    if gk = "panic" && mk = "ok" then
      propfail id (Printf.sprintf "%s: the implementation panics on a pair of results for which the merge is defined" what)
    else mismatch id (Printf.sprintf "%s: implementation %s, model %s" what gk mk);
    None
  end else match model with
    | Ok m -> count (what ^ "_ok"); Some (m, List.hd (args out))
    | Panic -> count (what ^ "_panic"); None
    | TickErr -> count (what ^ "_tickerr"); None

(* "repaired" (argument or C18_MODEL=repaired): replay burndown through the model of the candidate repair of
   finding F8 (docs/C18-F8-candidate.patch) instead of the model of the code as it is *)
let repaired =
  (Array.length Sys.argv > 1 && Sys.argv.(1) = "repaired") ||
  (match Sys.getenv_opt "C18_MODEL" with Some "repaired" -> true | _ -> false)

(* ---------- "re-indexes by merged developer identity": the identity table must group exactly the identities that
   are connected by shared names / e-mails.  Two independent judges:
   (a) the executable statements of C16 (coq/theories/Plumbing/IdentityMerge.v: mtotal_okb, mcomponents_okb,
       munion_okb, proved sound in C16_oracle_*_sound), extracted into this driver: always up to 12 identities, every third case up to 26 and every sixteenth up to 44
       (their cost grows with the fourth power of the number of identities);
   (b) a union-find over the parts written here, for every size.
   Both only inside the domain where every part occurs in at most one entry of each list (outside: finding F7 of C16). *)
let parts_of (s : string) = String.split_on_char '|' s

let list_domain (rd : string list) : bool =
  let seen = Hashtbl.create 64 in
  List.for_all (fun s ->
      let ps = List.sort_uniq compare (parts_of s) in
      List.for_all (fun p -> if Hashtbl.mem seen p then false else (Hashtbl.add seen p (); true)) ps) rd

let components_judge (rd1 : string list) (rd2 : string list) (tab : (string * int) list) (merged : string list) : string option =
  let parent : (string, string) Hashtbl.t = Hashtbl.create 64 in
  let rec find p = match Hashtbl.find_opt parent p with
    | None -> Hashtbl.add parent p p; p
    | Some q -> if q = p then p else begin let r = find q in Hashtbl.replace parent p r; r end in
  let union a b = let ra = find a and rb = find b in if ra <> rb then Hashtbl.replace parent ra rb in
  let ids = rd1 @ rd2 in
  List.iter (fun s -> match parts_of s with [] -> () | p :: r -> ignore (find p); List.iter (union p) r) ids;
  let finals = Hashtbl.create 64 in
  List.iter (fun (k, f) -> Hashtbl.replace finals k f) tab;
  let comp_final : (string, int * string) Hashtbl.t = Hashtbl.create 64 in
  let final_comp : (int, string * string) Hashtbl.t = Hashtbl.create 64 in
  let bad = ref None in
  let nm = List.length merged in
  List.iter (fun s ->
      if !bad = None then
        match Hashtbl.find_opt finals s with
        | None -> bad := Some (Printf.sprintf "identity %S has no merged index" s)
        | Some f when f < 0 || f >= nm -> bad := Some (Printf.sprintf "identity %S has the merged index %d, outside the merged list of %d" s f nm)
        | Some f ->
            let comp = find (List.hd (parts_of s)) in
            (match Hashtbl.find_opt comp_final comp with
             | Some (f', s') when f' <> f ->
                 bad := Some (Printf.sprintf "identities %S and %S are connected by shared names / e-mails but are sent to the merged developers %d and %d: one developer comes out as two" s' s f' f)
             | Some _ -> ()
             | None -> Hashtbl.add comp_final comp (f, s));
            (match Hashtbl.find_opt final_comp f with
             | Some (comp', s') when comp' <> comp && !bad = None ->
                 bad := Some (Printf.sprintf "identities %S and %S share no name or e-mail, even transitively, but are both sent to the merged developer %d" s' s f)
             | Some _ -> ()
             | None -> Hashtbl.add final_comp f (comp, s))) ids;
  (* every merged identity lists exactly the parts of its members *)
  if !bad = None then begin
    let want : (int, string list) Hashtbl.t = Hashtbl.create 64 in
    List.iter (fun s -> let f = Hashtbl.find finals s in
                Hashtbl.replace want f (parts_of s @ (try Hashtbl.find want f with Not_found -> []))) ids;
    List.iteri (fun w m ->
        if !bad = None then begin
          let got = List.sort_uniq compare (parts_of m) in
          let exp = List.sort_uniq compare (try Hashtbl.find want w with Not_found -> []) in
          if got <> exp then
            bad := Some (Printf.sprintf "merged developer %d is described as %S but its members have the parts %S" w m (String.concat "|" exp))
        end) merged
  end;
  !bad

let judge_identity_table id (an : string) (rd1 : z list list) (rd2 : z list list) (people : table) (merged : z list list) =
  let s1 = List.map string_of_name rd1 and s2 = List.map string_of_name rd2 in
  if not (list_domain s1 && list_domain s2) then count "idtab_outside_domain_F7"
  else begin
    count "idtab_judged";
    let clause = an ^ ": re-indexing by merged developer identity: the identity table MergeResults works with (identity.MergeReversedDictsIdentities) does not group exactly the input identities that are connected by shared names / e-mails: " in
    let tab = List.map (fun (k, e) -> (string_of_name k, int_of_z e.final)) people in
    let failed = ref false in
    (match components_judge s1 s2 tab (List.map string_of_name merged) with
     | Some what -> failed := true; propfail id (clause ^ what)
     | None -> ());
    let nids = List.length rd1 + List.length rd2 in
    if nids <= 12 || (nids <= 26 && id mod 3 = 0) || (nids <= 44 && id mod 16 = 0) then begin
      count "idtab_judged_by_C16_oracles";
      let idx = List.map (fun (k, e) -> (k, ((e.final, e.first), e.second))) people in
      if not !failed then begin
        if not (merge_domb rd1 rd2) then mismatch id "identity table: the driver's domain test and merge_domb disagree"
        else if not (mtotal_okb rd1 rd2 idx merged) then
          propfail id (clause ^ "mtotal_okb (C16) fails: an input identity has no merged index or one out of range")
        else if not (mcomponents_okb rd1 rd2 idx) then
          propfail id (clause ^ "mcomponents_okb (C16) fails: same merged index is not equivalent to being connected")
        else if not (munion_okb rd1 rd2 idx merged) then
          propfail id (clause ^ "munion_okb (C16) fails: a merged description is not the union of its members' parts")
      end
    end
  end

(* ---------- where a merged coupling matrix differs from the sums by name (report only; the verdict is the oracle's) *)
let describe_matrix_by_key (what : string) (key1 : int -> string) (key2 : int -> string) (keyo : int -> string)
    (m1 : row list) (m2 : row list) (out : row list) : string =
  let want : (string * string, int) Hashtbl.t = Hashtbl.create 1024 in
  let add key rows = List.iteri (fun i r -> List.iter (fun (c, v) ->
      let k = (key i, key (int_of_z c)) in
      Hashtbl.replace want k (int_of_z v + (try Hashtbl.find want k with Not_found -> 0))) r) rows in
  add key1 m1; add key2 m2;
  let got : (string * string, int) Hashtbl.t = Hashtbl.create 1024 in
  List.iteri (fun i r -> List.iter (fun (c, v) ->
      let k = (keyo i, keyo (int_of_z c)) in
      Hashtbl.replace got k (int_of_z v + (try Hashtbl.find got k with Not_found -> 0))) r) out;
  let diffs = ref [] in
  Hashtbl.iter (fun k v -> let g = (try Hashtbl.find got k with Not_found -> 0) in if g <> v then diffs := (k, v, g) :: !diffs) want;
  Hashtbl.iter (fun k g -> if not (Hashtbl.mem want k) && g <> 0 then diffs := (k, 0, g) :: !diffs) got;
  match List.sort compare !diffs with
  | [] -> ""
  | ((a, b), v, g) :: _ as l ->
      Printf.sprintf " [%s: %d cell(s) differ, e.g. (%s, %s): the inputs add up to %d, the merged result has %d]" what (List.length l) a b v g

(* report only: a developer's merged file set by file name *)
let describe_people_files (people : table) (merged : z list list) (r1 : couplesResult) (r2 : couplesResult) (out : couplesResult) : string =
  let name l i = (try string_of_name (List.nth l i) with _ -> Printf.sprintf "<index %d>" i) in
  let want : (int, string) Hashtbl.t = Hashtbl.create 64 in
  let add (r : couplesResult) = List.iteri (fun i fs ->
      match (try Some (int_of_z (List.assoc (List.nth r.cr_people i) people).final) with _ -> None) with
      | Some w -> List.iter (fun f -> Hashtbl.add want w (name r.cr_files (int_of_z f))) fs
      | None -> ()) r.cr_pf in
  add r1; add r2;
  let res = ref "" in
  List.iteri (fun w fs ->
      if !res = "" then begin
        let got = List.sort_uniq compare (List.map (fun f -> name out.cr_files (int_of_z f)) fs) in
        let exp = List.sort_uniq compare (Hashtbl.find_all want w) in
        if got <> exp || List.length got <> List.length fs then begin
          let missing = List.filter (fun x -> not (List.mem x got)) exp and extra = List.filter (fun x -> not (List.mem x exp)) got in
          res := Printf.sprintf " [PeopleFiles of merged developer %d (%s): %d file(s) expected, %d listed; missing e.g. %s; unexpected e.g. %s]"
              w (name merged w) (List.length exp) (List.length fs)
              (match missing with x :: _ -> x | [] -> "-") (match extra with x :: _ -> x | [] -> "-")
        end
      end) out.cr_pf;
  !res

(* report only: the first (tick, developer) whose commits / lines differ from the sums of the inputs *)
let describe_devs (people : table) (r1 : devsResult) (r2 : devsResult) (o1 : z) (o2 : z) (out : devsResult) : string =
  let want : (int * int, int * int * int * int) Hashtbl.t = Hashtbl.create 256 in
  let add (r : devsResult) off = List.iter (fun (t, dd) -> List.iter (fun (d, s) ->
      let d = int_of_z d in
      let nd = if d = 262142 then d else (try int_of_z (List.assoc (List.nth r.dr_people d) people).final with _ -> -1) in
      let k = (int_of_z t + int_of_z off, nd) in
      let (c, a, rm, ch) = (try Hashtbl.find want k with Not_found -> (0, 0, 0, 0)) in
      Hashtbl.replace want k (c + int_of_z s.dt_commits, a + int_of_z s.dt_ls.ls_added, rm + int_of_z s.dt_ls.ls_removed, ch + int_of_z s.dt_ls.ls_changed)) dd) r.dr_ticks in
  add r1 o1; add r2 o2;
  let got : (int * int, int * int * int * int) Hashtbl.t = Hashtbl.create 256 in
  List.iter (fun (t, dd) -> List.iter (fun (d, s) ->
      Hashtbl.replace got (int_of_z t, int_of_z d) (int_of_z s.dt_commits, int_of_z s.dt_ls.ls_added, int_of_z s.dt_ls.ls_removed, int_of_z s.dt_ls.ls_changed)) dd) out.dr_ticks;
  let diffs = ref [] in
  Hashtbl.iter (fun k v -> match Hashtbl.find_opt got k with
      | Some g when g = v -> ()
      | g -> diffs := (k, Some v, g) :: !diffs) want;
  Hashtbl.iter (fun k g -> if not (Hashtbl.mem want k) then diffs := (k, None, Some g) :: !diffs) got;
  let show = function None -> "no entry" | Some (c, a, r, ch) -> Printf.sprintf "commits %d, lines +%d -%d ~%d" c a r ch in
  match List.sort compare !diffs with
  | [] -> " [the commit and line totals per (tick, developer) agree: a per-language figure or a duplicate key differs]"
  | ((t, d), v, g) :: _ as l ->
      Printf.sprintf " [%d (tick, developer) entries differ, e.g. tick %d developer %d: the inputs add up to (%s), the merged result has (%s)]"
        (List.length l) t d (show v) (show g)

(* report only: the first interaction cell that differs from the sum over the members of the merged developer *)
let describe_rows (people : table) (merged : z list list) (r1 : burndownResult) (r2 : burndownResult) (out : matrix) : string =
  let nm = List.length merged in
  let res = ref "" in
  if List.length out <> nm then res := Printf.sprintf " [%d rows for %d merged developers]" (List.length out) nm
  else List.iteri (fun w row ->
      if !res = "" then begin
        if List.length row <> nm + 2 then res := Printf.sprintf " [row of merged developer %d (%s) has %d cells, %d expected]" w (string_of_name (List.nth merged w)) (List.length row) (nm + 2)
        else List.iteri (fun c v ->
            if !res = "" then begin
              let e = int_of_z (pm_spec_cell people r1.br_people r2.br_people r1.br_pm r2.br_pm (z_of_int w) (z_of_int c)) in
              if int_of_z v <> e then
                res := Printf.sprintf " [row of merged developer %d (%s), column %d: merged %d, the input developers of that identity add up to %d; whole row %s]"
                         w (string_of_name (List.nth merged w)) c (int_of_z v) e (show_ints (List.map int_of_z row))
            end) row
      end) out;
  !res

(* ---------- "per aligned tick" for burndown (round 4).  mergeMatrices is opaque in the model, but the inputs of the pair streams
   are [[2^k]] with sampling = granularity = 1, all bits distinct: the value of a history of result i must land in band = first
   sample = offset_i of the merged history, where (offset_1, offset_2) = tick_offsets (the extracted function of the model that
   C18_devs_alignment characterises: whole ticks between the floored begin of result i and the earlier floored begin, the grid
   counted from Go's zero time as TicksSinceStart / FloorTime do).  (align (rows cols (band value first-sample) ...) ...) is the
   picture of the real merged global history and of every merged developer's history. *)
let judge_align id (c1 : common) (c2 : common) (r1 : burndownResult) (r2 : burndownResult) (merged : z list list) (o : sx) =
  match field_opt "align" o with
  | None -> ()
  | Some al ->
      let hists (r : burndownResult) = List.filter (fun m -> m <> []) (r.br_global :: r.br_ph) in
      let vals (r : burndownResult) = List.map (fun m -> match m with [[v]] -> int_of_z v | _ -> -1) (hists r) in
      let v1 = vals r1 and v2 = vals r2 in
      let m1 = List.fold_left (lor) 0 v1 and m2 = List.fold_left (lor) 0 v2 in
      let d = int_of_z r1.br_ticksize in
      let b1 = int_of_z c1.c_begin and b2 = int_of_z c2.c_begin and e1 = int_of_z c1.c_end and e2 = int_of_z c2.c_end in
      let dom = List.for_all (fun v -> v > 0) (v1 @ v2) && m1 land m2 = 0
                && d > 0 && d mod 1000000000 = 0 && r1.br_ticksize = r2.br_ticksize
                && int_of_z r1.br_sampling = 1 && int_of_z r1.br_granularity = 1
                && int_of_z r2.br_sampling = 1 && int_of_z r2.br_granularity = 1
                && b1 <> 0 && b2 <> 0 && e1 - b1 >= d / 1000000000 && e2 - b2 >= d / 1000000000 in
      if dom then
        match tick_offsets c1.c_begin c2.c_begin r1.br_ticksize with
        | Ok (o1, o2) ->
            count "alignment_judged";
            let o1 = int_of_z o1 and o2 = int_of_z o2 in
            if o1 <> o2 then count "alignment_judged_offsets_differ";
            let bad = ref None in
            List.iteri (fun i h ->
                if !bad = None then
                  match list_of_sx h with
                  | _rows :: cols :: cells ->
                      let cells = List.map (fun x -> match ints_of_sx x with [b; v; f] -> (b, v, f) | _ -> failwith "align cell") cells in
                      let total = List.fold_left (fun a (_, v, _) -> a + v) 0 cells in
                      let p1 = total land m1 and p2 = total land m2 in
                      if p1 + p2 = total then begin
                        let exp = List.sort compare (List.filter (fun (_, v) -> v <> 0)
                                                       (if o1 = o2 then [(o1, p1 + p2)] else [(o1, p1); (o2, p2)])) in
                        let got = List.sort compare (List.map (fun (b, v, _) -> (b, v)) cells) in
                        if got <> exp || List.exists (fun (b, _, f) -> f <> b) cells || List.exists (fun (b, _, _) -> b >= int_of_sx cols) cells then
                          bad := Some (i, p1, p2, cells)
                      end
                  | _ -> failwith "align") (args al);
            (match !bad with
             | None -> ()
             | Some (i, p1, p2, cells) ->
                 propfail id (Printf.sprintf "burndown: the histories of the two results are not added per aligned tick: %s: the lines of the first result (bits %d) belong to band = sample %d and those of the second (bits %d) to %d (whole ticks of %d s between tick 0 of that result and tick 0 of the merged result, ticks counted as FloorTime does; begins %d and %d), the merged history has (band, value, first sample) %s [alignment of tick grids]"
                                (if i = 0 then "global history" else Printf.sprintf "history of merged developer %d (%s)" (i - 1)
                                     (try String.concat "" (List.map (fun c -> String.make 1 (Char.chr (int_of_z c))) (List.nth merged (i - 1))) with _ -> "?"))
                                p1 o1 p2 o2 (d / 1000000000) b1 b2
                                (String.concat " " (List.map (fun (b, v, f) -> Printf.sprintf "(%d, %d, %d)" b v f) cells))))
        | _ -> ()

(* big cases go through extracted list functions that are not tail recursive: run with a large stack *)
let () =
  if Sys.getenv_opt "VERIF_DRIVER_STACK" = None then begin
    Unix.putenv "VERIF_DRIVER_STACK" "1";
    (try Unix.execv "/bin/sh" (Array.append [| "sh"; "-c"; "ulimit -s 4000000 2>/dev/null || ulimit -s unlimited 2>/dev/null; exec \"$0\" \"$@\""; Sys.executable_name |]
                                 (Array.sub Sys.argv 1 (Array.length Sys.argv - 1)))
     with _ -> ())
  end

let rec judge_case id c =
    let an = atom (List.hd (args (field "an" c))) in
    if field_opt "chain" c <> None then judge_chain id an c else
    let fast = (match field_opt "fam" c with Some _ -> true | None -> false) in
    if fast then count "scale_cases";
    let obs = field "obs" c in
    let out = List.hd (args (field "out" obs)) in
    (* (inputs a b others), chained cases: the arguments of the call and every other live result must read the same after it *)
    (match field_opt "inputs" obs with
     | Some f ->
         let fl = List.map bool_of_sx (args f) in
         (match fl with
          | [a; b; others] ->
              (* the one place where the code is known to write into its first argument: burndown, the second result has no
                 interaction matrix but brings new developers - the row table of r1.PeopleMatrix is taken over and its rows are
                 widened in place; the result shares that row table, so a later call of the same kind on the result also
                 changes the earlier results that share it *)
              let ext_call = an = "burndown" && (
                  let r1s = List.hd (args (field "r1" c)) and r2s = List.hd (args (field "r2" c)) in
                  mat_of_sx (List.hd (args (field "pm" r2s))) = [] && mat_of_sx (List.hd (args (field "pm" r1s))) <> []) in
              if not a || not b then begin
                let extend = ext_call && not a && b in
                propfail id (Printf.sprintf "%s: MergeResults changed its %s argument: the caller's result no longer reads as before the call%s" an
                               (if not a && not b then "first and second" else if not a then "first" else "second")
                               (if extend then " [bd-extend-widens-r1: the second result has no interaction matrix, the rows of the first argument's PeopleMatrix are widened in place]" else ""))
              end;
              if not others then
                propfail id (an ^ ": MergeResults changed a result that is not an argument of the call (an earlier result shares storage with an argument or with the new result)"
                             ^ (if ext_call then " [bd-extend-widens-r1: the first argument came out of an earlier call with a second result without interaction matrix and shares the row table of that call's first argument]" else ""))
          | _ -> failwith "inputs")
     | None -> ());
    let c1 = common_of_sx (field "c1" c) and c2 = common_of_sx (field "c2" c) in
    match an with
    | "common" ->
        let m = common_merge c1 c2 in
        (match outcome id "common" m out with
         | None ->
             (* the panic is part of the contract: exactly when the receiver has no end or the argument no begin
                (or the receiver's per-item map is nil while the argument's is not empty) *)
             ()
         | Some (mc, o) ->
             let gc = common_of_sx o in
             if not (common_b c1 c2 gc) then
               propfail id "common summary: begin/end/commits/run time are not min/max/sum/sum of the inputs";
             if canon_common gc <> canon_common mc then mismatch id "common: merged summary differs from the model")
    | _ ->
        let (people, merged) = table_of_sx (field "idtab" obs) in
        let r1s = List.hd (args (field "r1" c)) and r2s = List.hd (args (field "r2" c)) in
        judge_identity_table id an (names_of (field "people" r1s)) (names_of (field "people" r2s)) people merged;
        (match an with
         | "devs" ->
             let r1 = devs_of_sx r1s and r2 = devs_of_sx r2s in
             let m = devs_merge people merged r1 r2 c1 c2 in
             (match outcome id "devs" m out with
              | None -> ()
              | Some (md, o) ->
                  let gd = devs_of_sx o in
                  let (o1, o2) = (match tick_offsets c1.c_begin c2.c_begin r1.dr_ticksize with
                      | Ok p -> p | _ -> failwith "offsets") in
                  if List.map string_of_name gd.dr_people <> List.map string_of_name merged then
                    propfail id "devs: the merged developer list is not the merged identity list"
                  else if not ((if fast then dv_conserve_fast_b else dv_conserve_b) people merged r1 r2 o1 o2 gd) then
                    propfail id ("devs: a figure of the merged result is not the sum of the inputs per aligned tick and merged developer (or a total differs)"
                                 ^ describe_devs people r1 r2 o1 o2 gd);
                  if canon_devs gd <> canon_devs md then mismatch id "devs: merged result differs from the model")
         | "couples" ->
             let r1 = couples_of_sx r1s and r2 = couples_of_sx r2s in
             let m = couples_merge people merged r1 r2 in
             (match outcome id "couples" m out with
              | None -> ()
              | Some (mc, o) ->
                  let gc = couples_of_sx o in
                  (* the file table of the model against the one the implementation computed *)
                  (match literal_merge r1.cr_files r2.cr_files, field_opt "filetab" obs with
                   | Ok (mt, mm), Some ft ->
                       let (gt, gm) = table_of_sx ft in
                       let cn t = List.sort compare (List.map (fun (k, e) ->
                           (string_of_name k, int_of_z e.final, int_of_z e.first, int_of_z e.second)) t) in
                       if cn mt <> cn gt || List.map string_of_name mm <> List.map string_of_name gm then
                         mismatch id "couples: MergeReversedDictsLiteral differs from the model"
                   | _ -> mismatch id "couples: no file table");
                  if List.map string_of_name gc.cr_people <> List.map string_of_name merged then
                    propfail id "couples: the merged developer list is not the merged identity list"
                  else if not ((if fast then cp_sum_fast_b else cp_sum_b) people merged r1 r2 gc) then begin
                    let nth_name l i = (try string_of_name (List.nth l i) with _ -> Printf.sprintf "<index %d>" i) in
                    let dev rd i = if i >= List.length rd then "<unmatched developer>"
                      else (try string_of_name (List.nth merged (int_of_z (List.assoc (List.nth rd i) people).final)) with _ -> Printf.sprintf "<developer %d>" i) in
                    let devo i = if i >= List.length merged then "<unmatched developer>" else nth_name merged i in
                    propfail id ("couples: a matrix cell, a line count or a developer's file set of the merged result is not the sum/union of the inputs re-indexed by file name and merged identity"
                      ^ describe_matrix_by_key "FilesMatrix by file name" (nth_name r1.cr_files) (nth_name r2.cr_files) (nth_name gc.cr_files) r1.cr_fm r2.cr_fm gc.cr_fm
                      ^ describe_matrix_by_key "PeopleMatrix by merged developer" (dev r1.cr_people) (dev r2.cr_people) devo r1.cr_pm r2.cr_pm gc.cr_pm
                      ^ describe_people_files people merged r1 r2 gc)
                  end;
                  if canon_couples gc <> canon_couples mc then mismatch id "couples: merged result differs from the model")
         | "burndown" ->
             let r1 = burndown_of_sx r1s and r2 = burndown_of_sx r2s in
             let m = (if repaired then bd_merge_repaired else bd_merge) code_merge people merged r1 r2 in
             (match outcome id "burndown" m out with
              | None -> ()
              | Some (mb, o) ->
                  let one t = List.hd (args (field t o)) in
                  let gpeople = names_of (field "people" o) in
                  let gcodes = List.map int_of_sx (args (field "phcodes" o)) in
                  let gpm = mat_of_sx (one "pm") in
                  let gglobal = (match args (field "global" o) with [p; v] -> (int_of_sx p <> 0, int_of_sx v) | _ -> failwith "global") in
                  let wf = wf_table_b people r1.br_people r2.br_people merged in
                  if not wf then count "table_not_wf";
                  let nm = List.length merged in
                  let n1 = List.length r1.br_people and n2 = List.length r2.br_people in
                  let hist_dom = wf && gcodes <> [] &&
                                 (List.length r1.br_ph = n1) && (List.length r2.br_ph = n2) in
                  let rect n pm = List.length pm = n && List.for_all (fun r -> List.length r = n + 2) pm in
                  let rows_dom = wf && r2.br_pm <> [] && rect n1 r1.br_pm && rect n2 r2.br_pm in
                  (* the "extend" branch: the second result has no interaction matrix; the rows are those of the first result,
                     re-indexed, and zero rows for the developers only the second result knows (pm_spec_cell reads an absent
                     matrix as zeros) *)
                  let rows_dom_ext = wf && r2.br_pm = [] && n1 > 0 && rect n1 r1.br_pm in
                  let bad_hist = if not hist_dom then None else begin
                      count "selection_judged";
                      let rec go w = function
                        | [] -> None
                        | g :: rest ->
                            let e = int_of_z (expected_code people r1.br_people r2.br_people r1.br_ph r2.br_ph (z_of_int w)) in
                            if g <> e then Some (w, g, e) else go (w + 1) rest in
                      if List.length gcodes <> nm then Some (-1, List.length gcodes, nm) else go 0 gcodes end in
                  (* the operands of a chained call are pictured by their codes, not by their real matrices: pairs only *)
                  if !pfx = "" then judge_align id c1 c2 r1 r2 merged o;
                  let lit = literal_b people r1.br_people merged && literal_b people r2.br_people merged in
                  if lit then count "burndown_literal" else count "burndown_identities_merge";
                  (match bad_hist with
                   | Some (w, g, e) ->
                       propfail id (Printf.sprintf "burndown: history of merged developer %d is computed from the wrong input developers (selection code %d, the members of that identity give %d)%s"
                                      w g e (if lit then "" else " [identities merge: F8]"))
                   | None -> ());
                  if rows_dom && (count "rows_judged"; not (pm_rows_b people merged r1 r2 gpm)) then
                         propfail id ("burndown: an interaction row of the merged result is not the sum over the input developers of that merged identity"
                                      ^ describe_rows people merged r1 r2 gpm ^ (if lit then "" else " [identities merge: F8]"));
                  if rows_dom_ext && (count "rows_judged_extend_branch"; not (pm_rows_b people merged r1 r2 gpm)) then
                         propfail id ("burndown: an interaction row of the merged result is not the sum over the input developers of that merged identity (the second result has no interaction matrix: the rows of the first one, re-indexed, and zero rows for the new developers are expected)"
                                      ^ describe_rows people merged r1 r2 gpm ^ (if lit then "" else " [identities merge: F8] [extend branch: the rows of the first result are taken over without re-indexing]"));
                       begin
                         (* fine correspondence *)
                         let mcodes = List.map (fun h -> int_of_z (code h)) mb.br_ph in
                         let mglobal = (mb.br_global <> [], int_of_z (code mb.br_global)) in
                         if List.map string_of_name gpeople <> List.map string_of_name mb.br_people then mismatch id "burndown: people differ from the model"
                         else if int_of_sx (one "ticksize") <> int_of_z mb.br_ticksize
                              || int_of_sx (one "sampling") <> int_of_z mb.br_sampling
                              || int_of_sx (one "granularity") <> int_of_z mb.br_granularity then
                           mismatch id "burndown: tick size / sampling / granularity differ from the model"
                         else if gglobal <> mglobal then mismatch id "burndown: global history differs from the model"
                         else if gcodes <> mcodes then
                           mismatch id ("burndown: selected people histories differ: impl=" ^ show_ints gcodes ^ " model=" ^ show_ints mcodes)
                         else if List.map (List.map int_of_z) gpm <> List.map (List.map int_of_z) mb.br_pm then
                           mismatch id "burndown: people interaction matrix differs from the model"
                         else if int_of_sx (one "files") <> 0 then mismatch id "burndown: file histories are merged (the model has none)"
                       end)
         | a -> failwith ("unknown analysis " ^ a))

(* chained merges: (obs (step a b (c1 ..) (c2 ..) (r1 image) (r2 image) [filetab] idtab (inputs ..) out) ...): every call is
   judged like a single pair whose inputs are the pictures of its operands taken before the call *)
and judge_chain id an c =
  let shape = atom (List.hd (args (field "chain" c))) in
  count "chain_cases";
  let steps = List.filter (fun x -> tag x = "step") (args (field "obs" c)) in
  let nsteps = List.length steps in
  let name k = let n0 = (if shape = "LR" then 4 else 3) in
    if k < n0 then String.make 1 (Char.chr (65 + k)) else Printf.sprintf "<result of call %d>" (k - n0 + 1) in
  List.iteri (fun i st ->
    match args st with
    | a :: b :: rest ->
        count "chain_calls";
        if i > 0 then count "chain_calls_on_an_intermediate_or_used_result";
        let keep t = List.filter (fun x -> tag x = t) rest in
        let sub = L ([A "case"; A (string_of_int id); L [A "an"; A an]] @ keep "c1" @ keep "c2" @ keep "r1" @ keep "r2"
                     @ [L (A "obs" :: (keep "idtab" @ keep "filetab" @ keep "inputs" @ keep "out"))]) in
        pfx := Printf.sprintf "chained merge %s, call %d of %d = MergeResults(%s, %s), operands as they were before the call: " shape (i + 1) nsteps
                 (name (int_of_sx a)) (name (int_of_sx b));
        (try judge_case id sub with e -> pfx := ""; raise e);
        pfx := ""
    | _ -> failwith "step") steps

let () =
  iter_cases judge_case
